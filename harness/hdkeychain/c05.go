package hdkeychain

// ZZ_C05_roundtrip: String() then NewKeyFromString gives back the same key.
func ZZ_C05_roundtrip() {
	private := vCase("private", 0, 1) == 1
	k := zzKey(private)
	k.String()
	first := append([]byte(nil), zzEncoded...)
	zzDecoded = first
	k2, err := NewKeyFromString("<base58>")
	vAssert("parses-back", err == nil && k2 != nil)
	if k2 == nil {
		return
	}
	vAssert("same-flag", k2.isPrivate == private)
	vAssert("same-depth", k2.depth == k.depth)
	vAssert("same-childnum", k2.childNum == k.childNum)
	vAssert("same-fingerprint", vEqBytes(k2.parentFP, k.parentFP))
	vAssert("same-chaincode", vEqBytes(k2.chainCode, k.chainCode))
	vAssert("same-version", vEqBytes(k2.version, k.version))
	vAssert("same-key", vEqBytes(k2.key, k.key))
	k2.String()
	vAssert("same-serialisation", vEqBytes(zzEncoded, first))
	vReach("end")
}

func zzPayloadLen() int {
	if vParam("thorough", 0) == 1 {
		return vCase("len", 0, 90)
	}
	switch vCase("lenclass", 0, 5) {
	case 0:
		return 0
	case 1:
		return 4
	case 2:
		return 81
	case 3:
		return 82
	case 4:
		return 83
	}
	return 78
}

// ZZ_C05_strict: an arbitrary decoded payload is accepted only when it is a canonical 82-byte
// extended key with a matching checksum and usable key material.
func ZZ_C05_strict() {
	n := zzPayloadLen()
	payload := vBytes("payload", n)
	zzDecoded = payload
	k, err := NewKeyFromString("<base58>")
	vReach("parsed")
	if err != nil {
		vAssert("nil-on-error", k == nil)
		vReach("rejected")
		return
	}
	vReach("accepted")
	vAssert("length-82", n == 82)
	if n != 82 {
		return
	}
	vAssert("checksum", vEqBytes(payload[78:], zzDsha(payload[:78])[:4]))
	if payload[45] == 0 {
		vAssert("private-flag", k.isPrivate)
		vAssert("scalar-in-range", zzBelowN(payload[46:78]) && zzNonZero(payload[46:78]))
	} else {
		vAssert("public-flag", !k.isPrivate)
		_, perr := zzStubParsePubKey(payload[45:78], zzStubS256())
		vAssert("point-valid", perr == nil)
		vAssert("compressed-format", payload[45] == 2 || payload[45] == 3)
	}
	k.String()
	vAssert("canonical-reserialisation", vEqBytes(zzEncoded, payload))
}
