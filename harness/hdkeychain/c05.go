package hdkeychain

// ZZ_C05_roundtrip: String() then NewKeyFromString gives back the same key.
func ZZ_C05_roundtrip() {
	private := vCase("private", 0, 1) == 1
	k := zzKey(private)
	if vCase("derived", 0, 1) == 1 {
		// a key produced by derivation (not only keys built field by field)
		c, err := k.Child(vU32("index"))
		if err != nil {
			return
		}
		k = c
		private = c.isPrivate
		if private {
			// (IL + k) mod n = 0 is not refused by Child (BIP32 says such a child is invalid);
			// it needs an HMAC output hitting one value in 2^256 and cannot be exhibited, so it is
			// excluded here and listed in DESIGN.md under "outside the claim"
			vAssume(zzNonZero(c.key))
		} else {
			// curve contract: the sum of two curve points is a curve point
			_, perr := zzStubParsePubKey(c.key, zzStubS256())
			vAssume(perr == nil)
		}
		vReach("derived-key")
	}
	first := zzSer(k)
	k2, err := zzParse(first, false)
	vAssert("parses-back", err == nil && k2 != nil)
	if k2 == nil {
		return
	}
	vAssert("same-flag", k2.isPrivate == private)
	vAssert("same-depth", k2.depth == k.depth)
	vAssert("same-childnum", k2.childNum == k.childNum)
	vAssert("same-fingerprint", vEqBytes(k2.parentFP, k.parentFP))
	vAssert("same-chaincode", vEqBytes(k2.chainCode, k.chainCode))
	vAssert("same-version", vEqBytes(k2.version, k.version))
	vAssert("same-key", vEqBytes(k2.key, k.key))
	vAssert("same-serialisation", vEqBytes(zzSer(k2), first))
	vReach("end")
}

func zzPayloadLen() int {
	if vParam("thorough", 0) == 1 {
		return vCase("len", 0, 90)
	}
	switch vCase("lenclass", 0, 5) {
	case 0:
		return 0
	case 1:
		return 4
	case 2:
		return 81
	case 3:
		return 82
	case 4:
		return 83
	}
	return 78
}

// ZZ_C05_strict: an arbitrary decoded payload is accepted only when it is a canonical 82-byte
// extended key with a matching checksum and usable key material.
func ZZ_C05_strict() {
	n := zzPayloadLen()
	payload := vBytes("payload", n)
	if n >= 4 {
		// checksum field = (true checksum) XOR (arbitrary delta): covers every byte string and
		// replays natively with the real double-SHA256 and the same delta
		delta := vBytes("ckdelta", 4)
		ck := zzDsha(payload[:n-4])[:4]
		for i := 0; i < 4; i++ {
			payload[n-4+i] = ck[i] ^ delta[i]
		}
	}
	k, err := zzParse(payload, false)
	vReach("parsed")
	if err != nil {
		vAssert("nil-on-error", k == nil)
		vReach("rejected")
		return
	}
	vReach("accepted")
	vAssert("length-82", n == 82)
	if n != 82 {
		return
	}
	vAssert("checksum", vEqBytes(payload[78:], zzDsha(payload[:78])[:4]))
	if payload[45] == 0 {
		vAssert("private-flag", k.isPrivate)
		vAssert("scalar-in-range", zzBelowN(payload[46:78]) && zzNonZero(payload[46:78]))
	} else {
		vAssert("public-flag", !k.isPrivate)
		_, perr := zzStubParsePubKey(payload[45:78], zzStubS256())
		vAssert("point-valid", perr == nil)
		vAssert("compressed-format", payload[45] == 2 || payload[45] == 3)
	}
	vAssert("canonical-reserialisation", vEqBytes(zzSer(k), payload))
}
