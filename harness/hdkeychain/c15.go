package hdkeychain

import "github.com/gcash/bchd/chaincfg"

type zzObs struct {
	ser      []byte
	pub      []byte
	chain    []byte
	fp       []byte
	version  []byte
	depth    uint8
	childNum uint32
	private  bool
}

func zzObserve(k *ExtendedKey) zzObs {
	return zzObs{
		ser:      zzSer(k),
		pub:      append([]byte(nil), k.pubKeyBytes()...),
		chain:    append([]byte(nil), k.chainCode...),
		fp:       append([]byte(nil), k.parentFP...),
		version:  append([]byte(nil), k.version...),
		depth:    k.depth,
		childNum: k.childNum,
		private:  k.isPrivate,
	}
}

func zzSameObs(tag string, k *ExtendedKey, o zzObs) {
	n := zzObserve(k)
	vAssert(tag+":serialisation-unchanged", vEqBytes(n.ser, o.ser))
	vAssert(tag+":pubkey-unchanged", vEqBytes(n.pub, o.pub))
	vAssert(tag+":chaincode-unchanged", vEqBytes(n.chain, o.chain))
	vAssert(tag+":fingerprint-unchanged", vEqBytes(n.fp, o.fp))
	vAssert(tag+":meta-unchanged", vEqBytes(n.version, o.version) && n.depth == o.depth && n.childNum == o.childNum && n.private == o.private)
}

func zzAllZero(b []byte) bool {
	z := true
	for _, x := range b {
		z = vAnd(z, x == 0)
	}
	return z
}

// ZZ_C15_independent: operations on one key never change another live key; Zero erases.
func ZZ_C15_independent() {
	private := vCase("private", 0, 1) == 1
	a := zzKey(private)
	if private && vCase("pubcached", 0, 1) == 1 {
		a.pubKeyBytes()
	}
	aKey, aPub, aChain, aFP := a.key, a.pubKey, a.chainCode, a.parentFP
	var b *ExtendedKey
	var err error
	derive := vCase("derive", 0, 2)
	switch derive {
	case 0:
		b, err = a.Child(vU32("index"))
	case 1:
		b, err = a.Neuter()
	case 2:
		b, err = zzParse(zzSer(a), false)
	}
	if err != nil || b == nil {
		return
	}
	if b == a {
		// neutering a public key is documented to return the same key
		vAssert("neuter-public-returns-self", !private)
		vReach("same-key")
		return
	}
	oa, ob := zzObserve(a), zzObserve(b)
	maxThen := 3
	if derive == 0 && vParam("thorough", 0) == 0 {
		maxThen = 2 // quick: no second derivation after a derivation (each costs 33 length cases)
	}
	switch vCase("then", 0, maxThen) {
	case 0:
		// zero the derived key: the original keeps its value, the derived one is erased
		bKey, bPub, bChain, bFP := b.key, b.pubKey, b.chainCode, b.parentFP
		b.Zero()
		zzSameObs("zero-derived", a, oa)
		vAssert("zeroed:string", b.String() == "zeroed extended key")
		_, perr := b.ECPrivKey()
		vAssert("zeroed:no-private-key", perr != nil)
		vAssert("zeroed:buffers", zzAllZero(bKey) && zzAllZero(bPub) && zzAllZero(bChain) && zzAllZero(bFP))
		// a later network change does not bring a zeroed key back to life
		b.SetNet(&chaincfg.TestNet3Params)
		vAssert("zeroed:string-after-setnet", b.String() == "zeroed extended key")
		_, perr = b.ECPrivKey()
		vAssert("zeroed:no-private-key-after-setnet", perr != nil)
		zzSameObs("zero-derived-then-setnet", a, oa)
	case 1:
		// zero the original: the derived key keeps its value
		a.Zero()
		zzSameObs("zero-original", b, ob)
		vAssert("zeroed:string", a.String() == "zeroed extended key")
		vAssert("zeroed:buffers", zzAllZero(aKey) && zzAllZero(aPub) && zzAllZero(aChain) && zzAllZero(aFP))
	case 2:
		b.SetNet(&chaincfg.TestNet3Params)
		zzSameObs("setnet-derived", a, oa)
	case 3:
		_, cerr := b.Child(vU32("index2"))
		_ = cerr
		zzSameObs("child-of-derived", a, oa)
		zzSameObs("child-of-derived-self", b, ob)
	}
	vReach("end")
}
