package hdkeychain

import (
	"crypto/elliptic"
	"crypto/hmac"
	"crypto/sha256"
	"crypto/sha512"
	"errors"
	"math/big"

	"github.com/gcash/bchd/bchec"
	"github.com/gcash/bchutil/base58"
)

// ---- idealised secp256k1 (contract of bchec; see DESIGN.md §2.3) -----------------------------

var zzNBytes = []byte{
	0xff, 0xff, 0xff, 0xff, 0xff, 0xff, 0xff, 0xff, 0xff, 0xff, 0xff, 0xff, 0xff, 0xff, 0xff, 0xfe,
	0xba, 0xae, 0xdc, 0xe6, 0xaf, 0x48, 0xa0, 0x3b, 0xbf, 0xd2, 0x5e, 0x8c, 0xd0, 0x36, 0x41, 0x41}

var zzCurve *bchec.KoblitzCurve

func zzStubS256() *bchec.KoblitzCurve {
	if !vSymbolic() {
		return bchec.S256()
	}
	if zzCurve == nil {
		zzCurve = &bchec.KoblitzCurve{CurveParams: &elliptic.CurveParams{N: new(big.Int).SetBytes(zzNBytes), BitSize: 256}}
	}
	return zzCurve
}

func zzPad32(x *big.Int) []byte { return x.FillBytes(make([]byte, 32)) }

// k*G: an uninterpreted function of the scalar bytes
func zzStubSBM(c *bchec.KoblitzCurve, k []byte) (*big.Int, *big.Int) {
	if !vSymbolic() {
		return bchec.S256().ScalarBaseMult(k)
	}
	x := new(big.Int).SetBytes(vUFBytes("sbm_x", k, 32))
	y := new(big.Int).SetBytes(vUFBytes("sbm_y", k, 32))
	return x, y
}

func zzStubAdd(c *bchec.KoblitzCurve, x1, y1, x2, y2 *big.Int) (*big.Int, *big.Int) {
	if !vSymbolic() {
		return bchec.S256().Add(x1, y1, x2, y2)
	}
	in := append(append(append(zzPad32(x1), zzPad32(y1)...), zzPad32(x2)...), zzPad32(y2)...)
	return new(big.Int).SetBytes(vUFBytes("add_x", in, 32)), new(big.Int).SetBytes(vUFBytes("add_y", in, 32))
}

// parsing: format byte rules exactly as bchec, curve membership as an uninterpreted predicate,
// decompression as an uninterpreted function whose parity matches the format byte
func zzStubParsePubKey(b []byte, c *bchec.KoblitzCurve) (*bchec.PublicKey, error) {
	if !vSymbolic() {
		return bchec.ParsePubKey(b, bchec.S256())
	}
	if len(b) == 0 {
		return nil, errors.New("pubkey string is empty")
	}
	format := b[0]
	ybit := format&1 == 1
	format &^= 1
	pk := &bchec.PublicKey{Curve: c}
	switch len(b) {
	case 65:
		if format != 4 && format != 6 {
			return nil, errors.New("invalid magic in pubkey str")
		}
		pk.X = new(big.Int).SetBytes(b[1:33])
		pk.Y = new(big.Int).SetBytes(b[33:])
		if format == 6 && ybit != (pk.Y.Bit(0) == 1) {
			return nil, errors.New("ybit doesn't match oddness")
		}
	case 33:
		if format != 2 {
			return nil, errors.New("invalid magic in compressed pubkey string")
		}
		pk.X = new(big.Int).SetBytes(b[1:33])
		yb := vUFBytes("decompress_y", b[1:33], 32)
		// the two roots have opposite parity: the one selected has the requested parity
		if ybit {
			yb[31] |= 1
		} else {
			yb[31] &^= 1
		}
		pk.Y = new(big.Int).SetBytes(yb)
		if vUFBytes("has_root", b[1:33], 1)[0]&1 == 0 {
			return nil, errors.New("invalid square root")
		}
	default:
		return nil, errors.New("invalid pub key length")
	}
	on := vUFBytes("on_curve", append(zzPad32(pk.X), zzPad32(pk.Y)...), 1)
	if on[0]&1 == 0 {
		return nil, errors.New("pubkey isn't on secp256k1 curve")
	}
	return pk, nil
}

func zzStubSerCompressed(p *bchec.PublicKey) []byte {
	if !vSymbolic() {
		return p.SerializeCompressed()
	}
	b := make([]byte, 0, 33)
	b = append(b, 2|byte(p.Y.Bit(0)))
	return append(b, zzPad32(p.X)...)
}

func zzStubSerUncompressed(p *bchec.PublicKey) []byte {
	b := make([]byte, 0, 65)
	b = append(b, 4)
	b = append(b, zzPad32(p.X)...)
	return append(b, zzPad32(p.Y)...)
}

func zzStubSerHybrid(p *bchec.PublicKey) []byte {
	b := make([]byte, 0, 65)
	b = append(b, 6|byte(p.Y.Bit(0)))
	b = append(b, zzPad32(p.X)...)
	return append(b, zzPad32(p.Y)...)
}

// ---- base58 boundary (abstract: records what was encoded / returns an arbitrary payload) ------

var zzEncoded []byte
var zzDecoded []byte

func zzStubB58Encode(b []byte) string {
	zzEncoded = append([]byte(nil), b...)
	return "<base58>"
}

func zzStubB58Decode(s string) []byte { return append([]byte(nil), zzDecoded...) }

// ---- helpers ----------------------------------------------------------------------------------

func zzHmac(key, data []byte) []byte {
	h := hmac.New(sha512.New, key)
	h.Write(data)
	return h.Sum(nil)
}

func zzBelowN(b []byte) bool {
	return new(big.Int).SetBytes(b).Cmp(zzStubS256().N) < 0
}

func zzNonZero(b []byte) bool {
	return new(big.Int).SetBytes(b).Sign() != 0
}

// zzKey: an arbitrary extended key satisfying the representation invariant of the package.
func zzKey(private bool) *ExtendedKey {
	k := &ExtendedKey{
		chainCode: vBytes("chain", 32),
		depth:     vU8("depth"),
		parentFP:  vBytes("fp", 4),
		childNum:  vU32("childnum"),
		version:   vBytes("version", 4),
		isPrivate: private,
	}
	if private {
		k.key = vBytes("priv", 32)
		vAssume(zzBelowN(k.key))
		vAssume(zzNonZero(k.key))
	} else {
		k.key = vBytes("pub", 33)
		if !vSymbolic() {
			// native replay: any valid point will do; take the one of the scalar in the model bytes
			sc := append([]byte(nil), k.key[1:]...)
			sc[31] |= 1 // never the zero scalar
			sc[0] &= 0x7f
			x, y := bchec.S256().ScalarBaseMult(sc)
			k.key = (&bchec.PublicKey{Curve: bchec.S256(), X: x, Y: y}).SerializeCompressed()
		}
		vAssume(k.key[0] == 2 || k.key[0] == 3)
		_, err := zzStubParsePubKey(k.key, zzStubS256())
		vAssume(err == nil)
	}
	return k
}

func zzDsha(b []byte) []byte {
	h1 := sha256.Sum256(b)
	h2 := sha256.Sum256(h1[:])
	return h2[:]
}

// zzSer: the bytes String() hands to Base58 (natively: decode the real string again)
func zzSer(k *ExtendedKey) []byte {
	str := k.String()
	if !vSymbolic() {
		if str == "zeroed extended key" {
			return nil
		}
		return base58.Decode(str)
	}
	return append([]byte(nil), zzEncoded...)
}

// zzParse: NewKeyFromString on a string that Base58-decodes to b. Natively the checksum bytes
// are recomputed when fix is set (the solver's checksum is that of the uninterpreted hash).
func zzParse(b []byte, fix bool) (*ExtendedKey, error) {
	if !vSymbolic() {
		c := append([]byte(nil), b...)
		if fix && len(c) >= 4 {
			copy(c[len(c)-4:], zzDsha(c[:len(c)-4])[:4])
		}
		return NewKeyFromString(base58.Encode(c))
	}
	zzDecoded = b
	return NewKeyFromString("<base58>")
}
