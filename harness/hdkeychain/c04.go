package hdkeychain

import (
	"encoding/binary"
	"math/big"

	"github.com/gcash/bchd/bchec"
	"github.com/gcash/bchd/chaincfg"
	"github.com/gcash/bchutil"
)

// ZZ_C04_child: one derivation step from an arbitrary valid parent equals BIP32.
func ZZ_C04_child() {
	private := vCase("private", 0, 1) == 1
	k := zzKey(private)
	i := vU32("index")
	if !vSymbolic() {
		// native replay: the solver's HMAC values cannot be forced on the real HMAC, but the
		// failing region (e.g. a child scalar with a leading zero byte) is dense enough to be
		// found by walking the index
		for j := uint32(0); j < 4096 && vFailedCount() == 0; j++ {
			k2 := *k
			k2.pubKey = nil
			zzChildStep(private, &k2, i+j)
			zzChildStep(private, &k2, (i+j)|0x80000000)
		}
		return
	}
	zzChildStep(private, k, i)
}

func zzChildStep(private bool, k *ExtendedKey, i uint32) {
	parentKey := append([]byte(nil), k.key...)
	parentPub := append([]byte(nil), k.pubKeyBytes()...)
	child, err := k.Child(i)
	if k.depth == 255 {
		vAssert("refuse-depth-255", err == ErrDeriveBeyondMaxDepth && child == nil)
		vReach("refused-depth")
		return
	}
	hardened := i >= 0x80000000
	if !private && hardened {
		vAssert("refuse-hardened-from-public", err == ErrDeriveHardFromPublic && child == nil)
		vReach("refused-hardened")
		return
	}
	// BIP32 data: 0x00 || ser256(k) || ser32(i)   or   serP(K) || ser32(i)
	data := make([]byte, 37)
	if hardened {
		copy(data[1:], parentKey)
	} else {
		copy(data, parentPub)
	}
	binary.BigEndian.PutUint32(data[33:], i)
	I := zzHmac(k.chainCode, data)
	il, ir := I[:32], I[32:]
	if !zzBelowN(il) || !zzNonZero(il) {
		vAssert("refuse-invalid-il", err == ErrInvalidChild && child == nil)
		vReach("refused-il")
		return
	}
	if !private {
		// point(IL) + Kpar, refused when a coordinate of point(IL) is zero (bchec convention)
		ilx, ily := zzStubSBM(nil, il)
		if ilx.Sign() == 0 || ily.Sign() == 0 {
			vAssert("refuse-infinity", err == ErrInvalidChild)
			return
		}
		pk, perr := zzStubParsePubKey(parentKey, zzStubS256())
		vAssume(perr == nil)
		cx, cy := zzStubAdd(nil, ilx, ily, pk.X, pk.Y)
		want := zzStubSerCompressed(&bchec.PublicKey{X: cx, Y: cy})
		vAssert("derived", err == nil && child != nil)
		if child == nil {
			return
		}
		vAssert("public-child-key", vEqBytes(child.key, want))
		vAssert("public-child-flag", !child.isPrivate)
	} else {
		// ser256((parse256(IL) + k) mod n), always 32 bytes
		sum := new(big.Int).Add(new(big.Int).SetBytes(il), new(big.Int).SetBytes(parentKey))
		sum.Mod(sum, zzStubS256().N)
		want := sum.FillBytes(make([]byte, 32))
		vAssert("derived", err == nil && child != nil)
		if child == nil {
			return
		}
		vAssert("private-child-key-32-bytes", len(child.key) == 32)
		vAssert("private-child-key", vEqBytes(child.key, want))
		vAssert("private-child-flag", child.isPrivate)
		vReach("private-child")
	}
	vAssert("chain-code", vEqBytes(child.chainCode, ir))
	vAssert("depth", child.depth == k.depth+1)
	vAssert("child-number", child.childNum == i)
	vAssert("version", vEqBytes(child.version, k.version))
	vAssert("parent-fingerprint", vEqBytes(child.parentFP, bchutil.Hash160(parentPub)[:4]))
	vAssert("fingerprint-accessor", child.ParentFingerprint() == binary.BigEndian.Uint32(bchutil.Hash160(parentPub)[:4]))
	vAssert("depth-accessor", child.Depth() == k.depth+1 && child.IsPrivate() == private)
	vReach("derived")
}

var zzLongSeeds = []int{127, 128, 129, 255, 256, 257, 272, 288, 320, 511, 512, 528, 576}

// ZZ_C04_master: seed length bounds and master key layout.
func ZZ_C04_master() {
	n := vCase("seedlen", 0, vParam("maxseed", 66)+len(zzLongSeeds))
	if n > vParam("maxseed", 66) {
		// long seeds around the powers of two where a narrowed length would wrap back into range
		n = zzLongSeeds[n-vParam("maxseed", 66)-1]
	}
	seed := vBytes("seed", n)
	net := &chaincfg.MainNetParams
	k, err := NewMaster(seed, net)
	if n < 16 || n > 64 {
		vAssert("seed-length-refused", err == ErrInvalidSeedLen && k == nil)
		vReach("refused")
		return
	}
	I := zzHmac([]byte("Bitcoin seed"), seed)
	if !zzBelowN(I[:32]) || !zzNonZero(I[:32]) {
		vAssert("unusable-seed", err == ErrUnusableSeed)
		return
	}
	vAssert("master-ok", err == nil && k != nil)
	if k == nil {
		return
	}
	vAssert("master-key", vEqBytes(k.key, I[:32]) && vEqBytes(k.chainCode, I[32:]))
	vAssert("master-meta", k.depth == 0 && k.childNum == 0 && k.isPrivate && vEqBytes(k.parentFP, []byte{0, 0, 0, 0}))
	vAssert("master-version", vEqBytes(k.version, net.HDPrivateKeyID[:]))
	vReach("master")
}

// ZZ_C04_serial: String() hands Base58 exactly version|depth|fp|ser32(child)|chain|key|checksum;
// Address() is the P2PKH address of Hash160(serP(K)).
func ZZ_C04_serial() {
	private := vCase("private", 0, 1) == 1
	k := zzKey(private)
	pub := append([]byte(nil), k.pubKeyBytes()...)
	zzEncoded = zzSer(k)
	want := append([]byte(nil), k.version...)
	want = append(want, k.depth)
	want = append(want, k.parentFP...)
	want = append(want, byte(k.childNum>>24), byte(k.childNum>>16), byte(k.childNum>>8), byte(k.childNum))
	want = append(want, k.chainCode...)
	if private {
		want = append(want, 0)
		want = append(want, k.key...)
	} else {
		want = append(want, k.key...)
	}
	vAssert("payload-78", len(want) == 78)
	vAssert("serialised-length", len(zzEncoded) == 82)
	if len(zzEncoded) == 82 {
		vAssert("serialised-payload", vEqBytes(zzEncoded[:78], want))
		vAssert("serialised-checksum", vEqBytes(zzEncoded[78:], zzDsha(want)[:4]))
	}
	a, err := k.Address(&chaincfg.MainNetParams)
	vAssert("address-ok", err == nil)
	vAssert("address-hash", vEqBytes(a.ScriptAddress(), bchutil.Hash160(pub)))
	vReach("end")
}
