package bech32

// ZZ_selfcheck_bech32: BIP173 valid / invalid vectors, executed concretely.
func ZZ_selfcheck_bech32() {
	h, d, err := Decode("A12UEL5L")
	vAssert("selfcheck:valid-1", err == nil && h == "a" && len(d) == 0)
	h, d, err = Decode("abcdef1qpzry9x8gf2tvdw0s3jn54khce6mua7lmqqqxw")
	vAssert("selfcheck:valid-2", err == nil && h == "abcdef" && len(d) == 32 && d[0] == 0 && d[31] == 31)
	_, _, err = Decode("A1G7SGD8")
	vAssert("selfcheck:bad-checksum", err != nil)
	_, _, err = Decode("1pzry9x0s0muk")
	vAssert("selfcheck:empty-hrp", err != nil)
	s, err := Encode("abcdef", d)
	vAssert("selfcheck:encode", err == nil && s == "abcdef1qpzry9x8gf2tvdw0s3jn54khce6mua7lmqqqxw")
	vReach("end")
}
