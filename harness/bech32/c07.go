package bech32

// ---- BIP173 reference (transcribed from the specification's reference code) ---------------------

const zzCharset = "qpzry9x8gf2tvdw0s3jn54khce6mua7l"

var zzGen = [5]uint32{0x3b6a57b2, 0x26508e6d, 0x1ea119fa, 0x3d4233dd, 0x2a1462b3}

func zzPolymod(values []byte) uint32 {
	chk := uint32(1)
	for _, v := range values {
		top := chk >> 25
		chk = (chk&0x1ffffff)<<5 ^ uint32(v)
		for i := uint(0); i < 5; i++ {
			if (top>>i)&1 == 1 {
				chk ^= zzGen[i]
			}
		}
	}
	return chk
}

func zzHrpExpand(hrp []byte) []byte {
	var out []byte
	for _, c := range hrp {
		out = append(out, c>>5)
	}
	out = append(out, 0)
	for _, c := range hrp {
		out = append(out, c&31)
	}
	return out
}

// zzRefEncode: lower-case hrp, 5-bit data -> string
func zzRefEncode(hrp []byte, data []byte) []byte {
	values := append(zzHrpExpand(hrp), data...)
	pm := zzPolymod(append(values, 0, 0, 0, 0, 0, 0)) ^ 1
	out := append([]byte(nil), hrp...)
	out = append(out, '1')
	for _, d := range data {
		out = append(out, zzCharset[d])
	}
	for i := 0; i < 6; i++ {
		out = append(out, zzCharset[(pm>>uint(5*(5-i)))&31])
	}
	return out
}

func zzLower(c byte) byte {
	return vIte8(c >= 'A' && c <= 'Z', c+32, c)
}

func zzCharsetIndex(c byte) (byte, bool) {
	idx := byte(0)
	found := false
	for i := 0; i < 32; i++ {
		hit := c == zzCharset[i]
		idx = vIte8(hit, byte(i), idx)
		found = vOr(found, hit)
	}
	return idx, found
}

// ZZ_C07_bech32_roundtrip: Encode agrees with BIP173 and Decode inverts it.
func ZZ_C07_bech32_roundtrip() {
	nh := vCase("hrplen", 1, vParam("maxhrp", 3))
	nd := vCase("datalen", 0, vParam("maxdata", 4))
	hrp := vBytes("hrp", nh)
	for _, c := range hrp {
		vAssume(c >= 33 && c <= 126)
		vAssume(!(c >= 'A' && c <= 'Z'))
	}
	data := vSyms("data", nd, 5)
	orig := append([]byte(nil), data...)
	spare := make([]byte, nd, nd+8)
	copy(spare, data)
	for i := nd; i < nd+8; i++ {
		spare[:nd+8][i] = 0xa5
	}
	s, err := Encode(string(hrp), spare)
	vAssert("encode-ok", err == nil)
	vAssert("encode-is-bip173", s == string(zzRefEncode(hrp, orig)))
	vAssert("encode-pure-args", vEqBytes(spare, orig))
	for i := nd; i < nd+8; i++ {
		vAssert("encode-pure-spare-capacity", spare[:nd+8][i] == 0xa5)
	}
	h2, d2, err := Decode(s)
	vAssert("decode-ok", err == nil)
	vAssert("decode-hrp", h2 == string(hrp))
	vAssert("decode-data", vEqBytes(d2, orig))
	vReach("end")
}

// ZZ_C07_bech32_strict: every rejection rule, exercised behind the checksum wall: the string is
// the real encoding of a symbolic (hrp, data), then rendered in a way that must or must not be
// accepted. Accepted renderings must decode to exactly (lower(hrp), data).
func ZZ_C07_bech32_strict() {
	nh := vCase("hrplen", 1, vParam("maxhrp", 3))
	nd := vCase("datalen", 0, vParam("maxdata", 3))
	hrp := make([]byte, nh)
	for i := range hrp {
		hrp[i] = zzHrpChars[vSym("hrpc", 5)] // lower-case letters, digits (incl. '1'), punctuation
	}
	data := vSyms("data", nd, 5)
	orig := append([]byte(nil), data...)
	s, err := Encode(string(hrp), data)
	vAssume(err == nil)
	raw := []byte(s)
	n := len(raw)
	switch vCase("variant", 0, 6) {
	case 0: // as produced
		h, d, err := Decode(s)
		vAssert("plain-accepted", err == nil && h == string(hrp) && vEqBytes(d, orig))
		vReach("accepted")
	case 1: // all upper case
		up := make([]byte, n)
		for i, c := range raw {
			up[i] = vIte8(c >= 'a' && c <= 'z', c-32, c)
		}
		h, d, err := Decode(string(up))
		vAssert("upper-accepted", err == nil && h == string(hrp) && vEqBytes(d, orig))
	case 2: // mixed case: some letters upper, some lower
		mixed := make([]byte, n)
		anyUp, anyLow := false, false
		for i, c := range raw {
			letter := c >= 'a' && c <= 'z'
			flip := vBool("flip")
			mixed[i] = vIte8(vAnd(letter, flip), c-32, c)
			anyUp = vOr(anyUp, vAnd(letter, flip))
			anyLow = vOr(anyLow, vAnd(letter, !flip))
		}
		vAssume(vAnd(anyUp, anyLow))
		_, _, err := Decode(string(mixed))
		vAssert("mixed-case-rejected", err != nil)
		vReach("rejected")
	case 3: // a character outside 33..126 anywhere
		i := vCase("pos", 0, n-1)
		bad := append([]byte(nil), raw...)
		x := vU8("x")
		vAssume(x < 33 || x > 126)
		bad[i] = x
		_, _, err := Decode(string(bad))
		vAssert("unprintable-rejected", err != nil)
	case 4: // no human-readable part: the string starts at the separator
		_, _, err := Decode(string(raw[nh:]))
		vAssert("empty-hrp-rejected", err != nil || nh == 0)
	case 5: // separator too close to the end: fewer than six data characters
		cut := vCase("cut", 1, 6)
		if nd+6-cut >= 6 {
			return
		}
		short := raw[:n-cut]
		h, _, err := Decode(string(short))
		// either rejected, or the separator found is an earlier '1' inside the hrp
		vAssert("short-data-rejected", err != nil || len(h) < nh)
	case 6: // a data character that is not in the charset (but printable, lower case)
		if nd+6 == 0 {
			return
		}
		i := nh + 1 + vCase("pos", 0, nd+5)
		bad := append([]byte(nil), raw...)
		x := vU8("x")
		vAssume(x >= 33 && x <= 126 && !(x >= 'A' && x <= 'Z'))
		vAssume(!zzIsLowerCharset(x))
		bad[i] = x
		h, _, err := Decode(string(bad))
		vAssert("foreign-data-char-rejected", err != nil || len(h) != nh)
	}
}

// 32 characters a human-readable part may contain (lower case letters, digits incl. '1', punctuation)
const zzHrpChars = "abcdefghijklmnopqrstuvwxyz01289-"

// ZZ_C07_bech32_length: the 90 character limit.
func ZZ_C07_bech32_length() {
	total := 89 + vCase("over", 0, 3) // 89..92
	nd := total - 2 - 6
	data := vSyms("data", nd, 5)
	s, err := Encode("a", data)
	vAssume(err == nil)
	_, d, err := Decode(s)
	if total <= 90 {
		vAssert("within-limit-accepted", err == nil && vEqBytes(d, data))
		vReach("accepted")
	} else {
		vAssert("over-limit-rejected", err != nil)
		vReach("rejected")
	}
}

// ZZ_C07_convertbits: 8<->5 regrouping is exact, strict about padding, pure.
func ZZ_C07_convertbits() {
	n := vCase("n", 0, vParam("maxbytes", 4))
	in := vBytes("in", n)
	orig := append([]byte(nil), in...)
	five, err := ConvertBits(in, 8, 5, true)
	vAssert("8to5-ok", err == nil)
	vAssert("8to5-len", len(five) == (8*n+4)/5)
	for k, v := range five {
		vAssert("8to5-range", v < 32)
		var want byte
		for j := 0; j < 5; j++ {
			bit := k*5 + j
			var b byte
			if bit < 8*n {
				b = (orig[bit/8] >> uint(7-bit%8)) & 1
			}
			want = want<<1 | b
		}
		vAssert("8to5-bits", v == want)
	}
	vAssert("pure", vEqBytes(in, orig))
	back, err := ConvertBits(five, 5, 8, false)
	vAssert("5to8-ok", err == nil)
	vAssert("roundtrip", vEqBytes(back, orig))
	vReach("end")
}

// ZZ_C07_convertbits_strict: arbitrary 5-bit groups -> bytes: accepted only with zero padding of
// fewer than 5 bits; all (from,to) pairs never panic and stay in range.
func ZZ_C07_convertbits_strict() {
	n := vCase("n", 0, vParam("maxgroups", 5))
	in := vSyms("in", n, 5)
	out, err := ConvertBits(in, 5, 8, false)
	vReach("converted")
	if err == nil {
		vReach("accepted")
		pad := (5 * n) % 8
		vAssert("padding-short", pad < 5)
		vAssert("out-len", len(out) == 5*n/8)
		if n > 0 && pad > 0 {
			vAssert("padding-zero", in[n-1]&byte((1<<uint(pad))-1) == 0)
		}
		again, err := ConvertBits(out, 8, 5, true)
		vAssert("canonical", err == nil && vEqBytes(again, in))
	}
	from := uint8(vCase("from", 0, 9))
	to := uint8(vCase("to", 0, 9))
	m := vCase("m", 0, 2)
	d := vBytes("d", m)
	pad := vCase("pad", 0, 1) == 1
	res, err := ConvertBits(d, from, to, pad)
	if from < 1 || from > 8 || to < 1 || to > 8 {
		vAssert("bad-widths-rejected", err != nil)
		return
	}
	if err == nil {
		for _, v := range res {
			vAssert("range", to == 8 || v < 1<<to)
		}
	}
}
