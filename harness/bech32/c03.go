package bech32

// ZZ_C03_bech32: the real decoder accepts no string that differs from a valid one in 1..w
// characters of its data part (data + checksum).
func ZZ_C03_bech32() {
	hrp := "a"
	L := vParam("datalen", 20) // data symbols without checksum
	w := vParam("w", 3)
	data := vSyms("data", L, 5)
	s, err := Encode(hrp, data)
	vAssert("encode-ok", err == nil)
	chars := []byte(s)
	e := vSyms("e", L+6, 5)
	off := len(hrp) + 1
	cs := checksumOf(hrp, data)
	for i := 0; i < L+6; i++ {
		var sym byte
		if i < L {
			sym = data[i]
		} else {
			sym = cs[i-L]
		}
		chars[off+i] = charset[sym^e[i]]
	}
	h2, d2, err := Decode(string(chars))
	if err != nil {
		vReach("rejected")
		return
	}
	vReach("accepted")
	_, _ = h2, d2
	vSupportSweep("min-distance", e, w)
}

func checksumOf(hrp string, data []byte) []byte {
	d := make([]byte, len(data))
	copy(d, data)
	return bech32Checksum(hrp, d)
}

func zzIsLowerCharset(x byte) bool {
	in := false
	for i := 0; i < len(charset); i++ {
		in = vOr(in, x == charset[i])
	}
	return in
}

// ZZ_C03_bech32_foreign: substitutions of data characters by anything that is not a lower-case
// charset symbol (upper case, '1', 'b', 'i', 'o', punctuation, non-ASCII) are rejected.
func ZZ_C03_bech32_foreign() {
	hrp := "a"
	L := vParam("datalen", 20)
	data := vSyms("data", L, 5)
	s, err := Encode(hrp, checksumless(data))
	vAssume(err == nil)
	chars := []byte(s)
	off := len(hrp) + 1
	cnt := 0
	for i := off; i < len(chars); i++ {
		use := vBool("use")
		x := vU8("x")
		vAssume(vImplies(use, !zzIsLowerCharset(x)))
		chars[i] = vIte8(use, x, chars[i])
		cnt += int(vIte8(use, 1, 0))
	}
	vAssume(cnt >= 1 && cnt <= 4)
	vReach("in")
	_, _, err = Decode(string(chars))
	vAssert("foreign-substitution-rejected", err != nil)
}

func checksumless(data []byte) []byte {
	d := make([]byte, len(data))
	copy(d, data)
	return d
}
