package gcs

import "github.com/aead/siphash"


// zzStubFastReduction: contract of fastReduction established by ZZ_C14_fastreduction:
// floor(v*NM/2^64), which is < NM (and 0 when NM = 0).
func zzStubFastReduction(v, nHi, nLo uint64) uint64 {
	if !vSymbolic() {
		return fastReduction(v, nHi, nLo) // native replay: the real routine
	}
	nm := nHi<<32 | nLo
	r := vUF64("fastreduction", v, nm, 0)
	vAssume(r < nm || (nm == 0 && r == 0))
	return r
}

var zzPs = []uint8{0, 1, 7, 8, 9, 19, 31, 32}

func zzP() uint8 {
	if op := vParam("onlyp", -1); op >= 0 {
		return uint8(op)
	}
	if vParam("allp", 0) == 1 {
		return uint8(vCase("p", 0, 32))
	}
	return zzPs[vCase("pclass", 0, len(zzPs)-1)]
}

// zzParams: P (case split), M symbolic with the unary runs bounded: (N*M) >> P <= maxq.
func zzParams(n int) (uint8, uint64) {
	p := zzP()
	m := vU64("M")
	vAssume(m < 1<<40)
	nm := uint64(n) * m
	vAssume(nm>>p <= uint64(vParam("maxq", 2)))
	return p, m
}

func zzItems(tag string, n int) [][]byte {
	var out [][]byte
	for i := 0; i < n; i++ {
		if vParam("itemlens", 0) == 1 {
			// variant with empty / nil / one-byte items (length-boundary handling)
			switch vCase("itemlen", 0, 2) {
			case 0:
				out = append(out, nil)
			case 1:
				out = append(out, []byte{})
			default:
				out = append(out, vBytes(zzName(tag, i), 1))
			}
			continue
		}
		out = append(out, vBytes(zzName(tag, i), 2))
	}
	return out
}

// ZZ_C13_members: every member matches through all four query paths; empty filter / empty
// query match nothing.
func ZZ_C13_members() {
	n := vCase("n", 0, vParam("maxn", 2))
	p, m := zzParams(n)
	var key [KeySize]byte
	copy(key[:], vBytes("key", KeySize))
	data := zzItems("item", n)
	f, err := BuildGCSFilter(p, m, key, data)
	vAssert("build-ok", err == nil)
	if err != nil {
		return
	}
	vAssert("n", f.N() == uint32(n))
	vAssert("p", f.P() == p)
	if n > 0 {
		i := vCase("member", 0, n-1)
		one := [][]byte{data[i]}
		switch vCase("method", 0, 3) {
		case 0:
			ok, err := f.Match(key, data[i])
			vAssert("member-match", err == nil && ok)
		case 1:
			ok, err := f.MatchAny(key, one)
			vAssert("member-matchany", err == nil && ok)
		case 2:
			ok, err := f.ZipMatchAny(key, one)
			vAssert("member-zip", err == nil && ok)
		case 3:
			ok, err := f.HashMatchAny(key, one)
			vAssert("member-hash", err == nil && ok)
		}
		vReach("end")
		return
	}
	// empty query
	ok, err := f.MatchAny(key, nil)
	vAssert("empty-query", err == nil && !ok)
	ok, _ = f.ZipMatchAny(key, nil)
	vAssert("empty-query-zip", !ok)
	ok, _ = f.HashMatchAny(key, nil)
	vAssert("empty-query-hash", !ok)
	if n == 0 {
		q := zzItems("q", 1)
		ok, err := f.Match(key, q[0])
		vAssert("empty-filter-match", err == nil && !ok)
		ok, err = f.MatchAny(key, q)
		vAssert("empty-filter-matchany", err == nil && !ok)
		ok, _ = f.ZipMatchAny(key, q)
		vAssert("empty-filter-zip", !ok)
		ok, _ = f.HashMatchAny(key, q)
		vAssert("empty-filter-hash", !ok)
	}
	vReach("end")
}

// ZZ_C13_agree: on any built filter, MatchAny = ZipMatchAny = HashMatchAny = OR of Match.
func ZZ_C13_agree() {
	n := vCase("n", 1, vParam("maxn", 2))
	p, m := zzParams(n)
	var key [KeySize]byte
	copy(key[:], vBytes("key", KeySize))
	data := zzItems("item", n)
	f, err := BuildGCSFilter(p, m, key, data)
	if err != nil {
		return
	}
	nq := vCase("nq", 1, vParam("maxq_items", 2))
	q := zzItems("q", nq)
	any := false
	for i := 0; i < nq; i++ {
		ok, err := f.Match(key, q[i])
		vAssert("match-no-error", err == nil)
		any = vOr(any, ok)
	}
	zip, err1 := f.ZipMatchAny(key, q)
	hash, err2 := f.HashMatchAny(key, q)
	anyq, err3 := f.MatchAny(key, q)
	vAssert("no-errors", err1 == nil && err2 == nil && err3 == nil)
	vAssert("zip-agrees", zip == any)
	vAssert("hash-agrees", hash == any)
	vAssert("matchany-agrees", anyq == any)
	vReach("end")
}

// ZZ_C13_history: no state leaks from one query into the next - after any query on filter A
// (matching or not), every strategy on a second filter B (same key and parameters) still agrees
// with B.Match.
func ZZ_C13_history() {
	p, m := zzParams(1)
	var key [KeySize]byte
	copy(key[:], vBytes("key", KeySize))
	fa, err := BuildGCSFilter(p, m, key, zzItems("a", 1))
	if err != nil {
		return
	}
	fb, err := BuildGCSFilter(p, m, key, zzItems("b", 1))
	if err != nil {
		return
	}
	q := zzItems("q", 1)
	switch vCase("first", 0, 3) {
	case 0:
		fa.HashMatchAny(key, q)
	case 1:
		fa.MatchAny(key, q)
	case 2:
		fa.ZipMatchAny(key, q)
	case 3:
		fa.Match(key, q[0])
	}
	want, err0 := fb.Match(key, q[0])
	zip, err1 := fb.ZipMatchAny(key, q)
	hash, err2 := fb.HashMatchAny(key, q)
	anyq, err3 := fb.MatchAny(key, q)
	vAssert("no-errors", err0 == nil && err1 == nil && err2 == nil && err3 == nil)
	vAssert("zip-agrees-after-history", zip == want)
	vAssert("hash-agrees-after-history", hash == want)
	vAssert("matchany-agrees-after-history", anyq == want)
	vReach("end")
}

func zzName(prefix string, i int) string {
	return prefix + string(rune('0'+i))
}

func zzSip(d []byte, key *[KeySize]byte) uint64 { return siphash.Sum64(d, key) }
