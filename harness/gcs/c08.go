package gcs

// ZZ_C08_frombytes: serialized filters with arbitrary declared N and arbitrary bytes, then queries.
// Allocations sized by the declared N must stay proportional to the input.
func ZZ_C08_frombytes() {
	nb := vCase("nbytes", 0, vParam("maxbytes", 3))
	raw := vBytes("raw", nb)
	p := []uint8{0, 2, 32, 33}[vCase("pclass", 0, 3)]
	if vParam("allp", 0) == 1 {
		p = uint8(vCase("p", 0, 33))
	}
	m := vU64("M")
	n := vU32("n")
	var key [KeySize]byte
	f, err := FromBytes(n, p, m, raw)
	if err != nil {
		vReach("rejected")
		return
	}
	vReach("built")
	q := zzItems("q", vCase("nq", 0, vParam("maxq", 1)))
	switch vCase("method", 0, 3) {
	case 0:
		if len(q) > 0 {
			f.Match(key, q[0])
		}
	case 1:
		f.ZipMatchAny(key, q)
	case 2:
		f.HashMatchAny(key, q)
	case 3:
		f.MatchAny(key, q)
	}
	vReach("end")
}

// ZZ_C08_fromnbytes: the N-prefixed form.
func ZZ_C08_fromnbytes() {
	nb := vCase("nbytes", 0, vParam("maxbytes", 6))
	raw := vBytes("raw", nb)
	f, err := FromNBytes(uint8(vCase("p", 0, 2)), vU64("M"), raw)
	if err != nil {
		vAssert("nil-on-error", f == nil)
		vReach("rejected")
		return
	}
	vReach("built")
	var key [KeySize]byte
	f.HashMatchAny(key, zzItems("q", 1))
	f.Match(key, []byte{1})
}
