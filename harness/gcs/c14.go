package gcs

import (
	"math/bits"
)

// ZZ_C14_fastreduction: the portable routine equals the high half of the 128-bit product.
// 64x64 multiplications of two symbolic operands are abstracted as a commutative uninterpreted
// function; both sides use the same four partial products.
func ZZ_C14_fastreduction() {
	v := vU64("v")
	nHi := vBits("nhi", 32)
	nLo := vBits("nlo", 32)
	hi, _ := bits.Mul64(v, nHi<<32|nLo)
	vAssert("high-64-of-product", fastReduction(v, nHi, nLo) == hi)
	vReach("end")
}

// ZZ_C14_encoding: the filter bytes are the Golomb-Rice bit string of the sorted reduced hashes.
func ZZ_C14_encoding() {
	n := vCase("n", 0, vParam("maxn", 2))
	p, m := zzParams(n)
	var key [KeySize]byte
	copy(key[:], vBytes("key", KeySize))
	data := zzItems("item", n)
	f, err := BuildGCSFilter(p, m, key, data)
	vAssert("build-ok", err == nil)
	if err != nil {
		return
	}
	// reference: reduced hashes, sorted ascending (branch on the comparisons like the sort does)
	nm := uint64(n) * m
	vals := make([]uint64, n)
	for i := 0; i < n; i++ {
		vals[i] = zzStubFastReduction(zzSip(data[i], &key), nm>>32, uint64(uint32(nm)))
	}
	for i := 1; i < n; i++ {
		for j := i; j > 0 && vals[j] < vals[j-1]; j-- {
			vals[j], vals[j-1] = vals[j-1], vals[j]
		}
	}
	var bits []byte
	var last uint64
	for _, v := range vals {
		d := v - last
		last = v
		q := d >> p
		vAssume(q <= uint64(vParam("maxq", 2))+6)
		for k := uint64(0); k < q; k++ {
			bits = append(bits, 1)
		}
		bits = append(bits, 0)
		for k := int(p) - 1; k >= 0; k-- {
			bits = append(bits, byte((d>>uint(k))&1))
		}
	}
	want := make([]byte, (len(bits)+7)/8)
	for i, b := range bits {
		want[i/8] |= b << uint(7-i%8)
	}
	got, err := f.Bytes()
	vAssert("bytes-ok", err == nil)
	vAssert("golomb-rice-bytes", vEqBytes(got, want))
	vReach("end")
}

// ZZ_C14_serialise: N-/P-/NP-prefixed forms and the two deserialisers.
func ZZ_C14_serialise() {
	nb := vCase("nbytes", 0, vParam("maxbytes", 3))
	raw := vBytes("raw", nb)
	p := uint8(vCase("p", 0, 33))
	m := vU64("M")
	var n uint32
	switch vCase("nclass", 0, 3) {
	case 0:
		n = uint32(vSym("n8", 8))
		vAssume(n < 0xfd)
	case 1:
		n = uint32(vU16("n16"))
		vAssume(n >= 0xfd)
	case 2:
		n = vU32("n32")
		vAssume(n > 0xffff)
	case 3:
		n = 0xffffffff
	}
	f, err := FromBytes(n, p, m, raw)
	if p > 32 {
		vAssert("p-too-big", err == ErrPTooBig)
		vReach("rejected")
		return
	}
	vAssert("frombytes-ok", err == nil)
	vAssert("n-p-kept", f.N() == n && f.P() == p)
	b0, _ := f.Bytes()
	vAssert("bytes-kept", vEqBytes(b0, raw))
	// CompactSize(N)
	var cs []byte
	switch {
	case n < 0xfd:
		cs = []byte{byte(n)}
	case n <= 0xffff:
		cs = []byte{0xfd, byte(n), byte(n >> 8)}
	default:
		cs = []byte{0xfe, byte(n), byte(n >> 8), byte(n >> 16), byte(n >> 24)}
	}
	nbs, err := f.NBytes()
	vAssert("nbytes", err == nil && vEqBytes(nbs, append(append([]byte{}, cs...), raw...)))
	pbs, err := f.PBytes()
	vAssert("pbytes", err == nil && vEqBytes(pbs, append([]byte{p}, raw...)))
	npbs, err := f.NPBytes()
	vAssert("npbytes", err == nil && vEqBytes(npbs, append(append(append([]byte{}, cs...), p), raw...)))
	// round trip through the N-prefixed form
	g, err := FromNBytes(p, m, nbs)
	vAssert("fromnbytes-ok", err == nil)
	if err == nil {
		gb, _ := g.Bytes()
		vAssert("roundtrip", g.N() == n && g.P() == p && vEqBytes(gb, raw) && g.modulusNP == f.modulusNP)
	}
	// the filter keeps a private copy of the bytes
	if nb > 0 {
		raw[0] ^= 0xff
		b1, _ := f.Bytes()
		vAssert("private-copy", b1[0] == raw[0]^0xff)
	}
	vReach("end")
}
