package merkleblock

import (
	"github.com/gcash/bchd/blockchain"
	"github.com/gcash/bchd/chaincfg/chainhash"
	"github.com/gcash/bchd/wire"
)

// ---- reference evaluation of a partial merkle tree (value style, no shared mutable state) ----

type zzEval struct {
	bad     bool
	bitPos  int
	hashPos int
	root    *chainhash.Hash
	matches []*chainhash.Hash
	items   []uint32
}

func zzEvalNode(n uint32, bits []byte, hashes []*chainhash.Hash, height, pos uint32, st zzEval) zzEval {
	if st.bitPos >= len(bits) {
		st.bad = true
		st.root = &chainhash.Hash{}
		return st
	}
	flag := bits[st.bitPos]
	st.bitPos++
	if height == 0 || flag == 0 {
		if st.hashPos >= len(hashes) {
			st.bad = true
			st.root = &chainhash.Hash{}
			return st
		}
		h := hashes[st.hashPos]
		st.hashPos++
		if height == 0 && flag == 1 {
			st.matches = append(st.matches, h)
			st.items = append(st.items, pos)
		}
		st.root = h
		return st
	}
	st = zzEvalNode(n, bits, hashes, height-1, 2*pos, st)
	left := st.root
	right := left
	if 2*pos+1 < zzWidth(n, height-1) {
		st = zzEvalNode(n, bits, hashes, height-1, 2*pos+1, st)
		right = st.root
		if *right == *left {
			st.bad = true
		}
	}
	st.root = blockchain.HashMerkleBranches(left, right)
	return st
}

// ZZ_C12_extract: arbitrary (count, hash list, flag bytes).
func ZZ_C12_extract() {
	var numTx uint32
	nc := vCase("numtx", 0, vParam("maxn", 4)+4)
	maxn := vParam("maxn", 4)
	switch {
	case nc <= maxn:
		numTx = uint32(nc)
	case nc == maxn+1:
		numTx = MaxTxnCount
	case nc == maxn+2:
		numTx = MaxTxnCount + 1
	case nc == maxn+3:
		numTx = 0xffffffff
	default:
		// every declared count above the limit (symbolic): must be refused before anything is sized by it
		numTx = vU32("bigcount")
		vAssume(numTx > MaxTxnCount)
	}
	small := nc <= maxn
	maxh := maxn + 1
	if on := vParam("onlyn", 0); on > 0 {
		// targeted variant: one declared count, few hashes
		if nc != 0 {
			return
		}
		numTx = uint32(on)
		small = true
		maxh = vParam("maxhashes", 2)
	}
	if !small {
		maxh = vParam("bigcounthashes", 1)
	}
	nh := vCase("nhashes", 0, maxh)
	nf := vCase("nflagbytes", 0, vParam("maxflagbytes", 1))
	msg := wire.MsgMerkleBlock{Transactions: numTx, Flags: vBytes("flags", nf)}
	for i := 0; i < nh; i++ {
		h := &chainhash.Hash{}
		if hb := vParam("hashbits", 256); hb < 256 {
			h[0] = vSym("hashsel", hb) // small alphabet: equal hashes are easy to hit
		} else {
			copy(h[:], vBytes("hash", 32))
		}
		msg.Hashes = append(msg.Hashes, h)
	}
	pb := NewMerkleBlockFromMsg(msg)
	root := pb.ExtractMatches()
	vReach("extracted")
	// documented rejections
	if numTx == 0 || numTx > MaxTxnCount || uint32(nh) > numTx || nf*8 < nh {
		vAssert("reject:pre-checks", root == nil)
		return
	}
	_ = small
	bits := make([]byte, nf*8)
	for i := range bits {
		bits[i] = (msg.Flags[i/8] >> uint(i%8)) & 1
	}
	ev := zzEvalNode(numTx, bits, msg.Hashes, zzHeight(numTx), 0, zzEval{})
	valid := !ev.bad && (ev.bitPos+7)/8 == (len(bits)+7)/8 && ev.hashPos == nh
	vAssert("accept-iff-valid", (root != nil) == valid)
	if root != nil && valid {
		vReach("accepted")
		vAssert("root", *root == *ev.root)
		got, items := pb.GetMatches(), pb.GetItems()
		vAssert("match-count", len(got) == len(ev.matches) && len(items) == len(ev.items))
		for i := range ev.matches {
			if i < len(got) && i < len(items) {
				vAssert("match-list", *got[i] == *ev.matches[i] && items[i] == ev.items[i])
			}
		}
	}
}
