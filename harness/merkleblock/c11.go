package merkleblock

import (
	"github.com/gcash/bchd/blockchain"
	"github.com/gcash/bchd/chaincfg/chainhash"
	"github.com/gcash/bchd/wire"
	"github.com/gcash/bchutil"
	"github.com/gcash/bchutil/bloom"
)

// ---- stubs -------------------------------------------------------------------------------

var zzLeaf [512]*chainhash.Hash
var zzMatched [512]bool

// transactions are tagged by their Version field
func zzStubTxHash(tx *wire.MsgTx) chainhash.Hash { return *zzLeaf[tx.Version&511] }

func zzStubMatchTx(f *bloom.Filter, tx *bchutil.Tx) bool { return zzMatched[tx.MsgTx().Version&511] }

// zzPattern: 0 = every subset (case split per transaction), 1..4 = structured subsets for large n
var zzPattern int

// zzBlock: n transactions with symbolic ids (first byte is a distinct concrete tag so that
// different transactions never share an id) and a concrete, case-split matched subset.
func zzBlock(n int) *bchutil.Block {
	mb := &wire.MsgBlock{}
	mb.Header.Version = vI32("hdrversion")
	mb.Header.Nonce = vU32("nonce")
	copy(mb.Header.PrevBlock[:], vBytes("prev", 32))
	for i := 0; i < n; i++ {
		h := &chainhash.Hash{}
		if vParam("concretehashes", 0) == 0 {
			copy(h[:], vBytes("txid", 32))
		}
		h[0] = byte(i + 1)
		h[1] = byte((i + 1) >> 8)
		zzLeaf[i] = h
		switch zzPattern {
		case 0:
			zzMatched[i] = vCase("matched", 0, 1) == 1
		case 1:
			zzMatched[i] = true // full set
		case 2:
			zzMatched[i] = i%2 == 0 // every second transaction
		case 3:
			zzMatched[i] = i == n-1 // right edge
		case 4:
			zzMatched[i] = false // empty set
		}
		mb.Transactions = append(mb.Transactions, &wire.MsgTx{Version: int32(i)})
		if !vSymbolic() {
			// native replay: the real transaction ids
			rh := mb.Transactions[i].TxHash()
			zzLeaf[i] = &rh
		}
	}
	return bchutil.NewBlock(mb)
}

// ---- reference: canonical BIP37 partial merkle tree ------------------------------------------

func zzWidth(n, height uint32) uint32 { return (n + (1 << height) - 1) >> height }

func zzNodeHash(n uint32, height, pos uint32) *chainhash.Hash {
	if height == 0 {
		return zzLeaf[pos]
	}
	l := zzNodeHash(n, height-1, 2*pos)
	r := l
	if 2*pos+1 < zzWidth(n, height-1) {
		r = zzNodeHash(n, height-1, 2*pos+1)
	}
	return blockchain.HashMerkleBranches(l, r)
}

type zzRef struct {
	bits   []byte
	hashes []*chainhash.Hash
}

func (r *zzRef) build(n uint32, height, pos uint32) {
	any := false
	for i := pos << height; i < (pos+1)<<height && i < n; i++ {
		if zzMatched[i] {
			any = true
		}
	}
	if any {
		r.bits = append(r.bits, 1)
	} else {
		r.bits = append(r.bits, 0)
	}
	if height == 0 || !any {
		r.hashes = append(r.hashes, zzNodeHash(n, height, pos))
		return
	}
	r.build(n, height-1, 2*pos)
	if 2*pos+1 < zzWidth(n, height-1) {
		r.build(n, height-1, 2*pos+1)
	}
}

func zzHeight(n uint32) uint32 {
	h := uint32(0)
	for zzWidth(n, h) > 1 {
		h++
	}
	return h
}

func zzCheckMsg(tag string, n int, msg *wire.MsgMerkleBlock, idx []uint32, hdr wire.BlockHeader) {
	ref := &zzRef{}
	ref.build(uint32(n), zzHeight(uint32(n)), 0)
	vAssert(tag+":numtx", msg.Transactions == uint32(n))
	vAssert(tag+":header", msg.Header.Version == hdr.Version && msg.Header.Nonce == hdr.Nonce && msg.Header.PrevBlock == hdr.PrevBlock)
	vAssert(tag+":hash-count", len(msg.Hashes) == len(ref.hashes))
	for i := range ref.hashes {
		if i < len(msg.Hashes) {
			vAssert(tag+":hash-list", *msg.Hashes[i] == *ref.hashes[i])
		}
	}
	vAssert(tag+":flag-bytes", len(msg.Flags) == (len(ref.bits)+7)/8)
	for i := 0; i < len(msg.Flags)*8; i++ {
		var want byte
		if i < len(ref.bits) {
			want = ref.bits[i]
		}
		vAssert(tag+":flag-bits", (msg.Flags[i/8]>>uint(i%8))&1 == want)
	}
	var wantIdx []uint32
	for i := 0; i < n; i++ {
		if zzMatched[i] {
			wantIdx = append(wantIdx, uint32(i))
		}
	}
	vAssert(tag+":index-count", len(idx) == len(wantIdx))
	for i := range wantIdx {
		if i < len(idx) {
			vAssert(tag+":index-list", idx[i] == wantIdx[i])
		}
	}
	// extraction returns the block's merkle root and exactly the chosen leaves, in order
	pb := NewMerkleBlockFromMsg(*msg)
	root := pb.ExtractMatches()
	vAssert(tag+":extract-ok", root != nil)
	if root != nil {
		vAssert(tag+":extract-root", *root == *zzNodeHash(uint32(n), zzHeight(uint32(n)), 0))
		got := pb.GetMatches()
		items := pb.GetItems()
		vAssert(tag+":extract-count", len(got) == len(wantIdx) && len(items) == len(wantIdx))
		for i := range wantIdx {
			if i < len(got) && i < len(items) {
				vAssert(tag+":extract-match", *got[i] == *zzLeaf[wantIdx[i]] && items[i] == wantIdx[i])
			}
		}
	}
}

// zzNativeFilter: inside the engine Filter.MatchTxAndUpdate is a stub that answers with the chosen
// subset; natively a real filter holding exactly the chosen transaction ids plays that role (nil if
// a false positive makes it answer differently from the chosen subset).
func zzNativeFilter(block *bchutil.Block, n int) *bloom.Filter {
	if vSymbolic() {
		return bloom.LoadFilter(nil)
	}
	f := bloom.NewFilter(uint32(n)+1, 0, 0.0000001, wire.BloomUpdateNone)
	for i := 0; i < n; i++ {
		if zzMatched[i] {
			f.AddHash(zzLeaf[i])
		}
	}
	for i, tx := range block.Transactions() {
		if f.MatchTxAndUpdate(tx) != zzMatched[i] {
			return nil
		}
	}
	return f
}

// ZZ_C11_build: the three builders on every subset of an n-transaction block.
func ZZ_C11_build() {
	n := vCase("ntx", vParam("minn", 1), vParam("maxn", 4))
	zzPattern = 0
	if vParam("structured", 0) == 1 {
		zzPattern = vCase("pattern", 1, 4)
	}
	block := zzBlock(n)
	hdr := block.MsgBlock().Header
	switch vCase("builder", 0, 2) {
	case 0:
		var set []*chainhash.Hash
		for i := 0; i < n; i++ {
			if zzMatched[i] {
				c := *zzLeaf[i]
				set = append(set, &c)
			}
		}
		msg, idx := NewMerkleBlockWithTxnSet(block, set)
		zzCheckMsg("txnset", n, msg, idx, hdr)
	case 1:
		f := zzNativeFilter(block, n)
		if f == nil {
			return
		}
		msg, idx := NewMerkleBlockWithFilter(block, f)
		zzCheckMsg("withfilter", n, msg, idx, hdr)
	case 2:
		f := zzNativeFilter(block, n)
		if f == nil {
			return
		}
		msg, idx := bloom.NewMerkleBlock(block, f)
		zzCheckMsg("bloom", n, msg, idx, hdr)
	}
	vReach("end")
}
