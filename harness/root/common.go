package bchutil

import (
	"crypto/sha256"

	"github.com/gcash/bchd/chaincfg"
	"golang.org/x/crypto/ripemd160"
)

// zzNet picks one of the six supported networks (concrete per path).
func zzNet() *chaincfg.Params {
	switch vCase("net", 0, 5) {
	case 0:
		return &chaincfg.MainNetParams
	case 1:
		return &chaincfg.TestNet3Params
	case 2:
		return &chaincfg.TestNet4Params
	case 3:
		return &chaincfg.ChipNetParams
	case 4:
		return &chaincfg.RegressionNetParams
	}
	return &chaincfg.SimNetParams
}

// ---- independent reference implementation of the CashAddr specification ----------------

var zzGen = [5]uint64{0x98f2bc8e61, 0x79b76d99e2, 0xf33e5fb3c4, 0xae2eabe2a8, 0x1e4f43e470}

const zzCharset = "qpzry9x8gf2tvdw0s3jn54khce6mua7l"

func zzRefPolymod(v []byte) uint64 {
	c := uint64(1)
	for _, d := range v {
		c0 := c >> 35
		c = ((c & 0x07ffffffff) << 5) ^ uint64(d)
		for i := uint(0); i < 5; i++ {
			if (c0>>i)&1 == 1 {
				c ^= zzGen[i]
			}
		}
	}
	return c ^ 1
}

// zzRefRegroup8to5 splits bytes into 5-bit groups, most significant bit first, zero padded.
func zzRefRegroup8to5(in []byte) []byte {
	nbits := len(in) * 8
	nout := (nbits + 4) / 5
	out := make([]byte, nout)
	for k := 0; k < nout; k++ {
		var v byte
		for j := 0; j < 5; j++ {
			bit := k*5 + j
			var b byte
			if bit < nbits {
				b = (in[bit/8] >> uint(7-bit%8)) & 1
			}
			v = v<<1 | b
		}
		out[k] = v
	}
	return out
}

// zzRefCashAddr is the string (without prefix) the CashAddr spec prescribes.
func zzRefCashAddr(prefix string, typ byte, hash []byte) string {
	var sizeCode byte
	switch len(hash) {
	case 20:
		sizeCode = 0
	case 24:
		sizeCode = 1
	case 28:
		sizeCode = 2
	case 32:
		sizeCode = 3
	case 40:
		sizeCode = 4
	case 48:
		sizeCode = 5
	case 56:
		sizeCode = 6
	case 64:
		sizeCode = 7
	}
	data := append([]byte{typ<<3 | sizeCode}, hash...)
	pay := zzRefRegroup8to5(data)
	var buf []byte
	for i := 0; i < len(prefix); i++ {
		buf = append(buf, prefix[i]&0x1f)
	}
	buf = append(buf, 0)
	buf = append(buf, pay...)
	buf = append(buf, 0, 0, 0, 0, 0, 0, 0, 0)
	mod := zzRefPolymod(buf)
	out := make([]byte, 0, len(pay)+8)
	for _, p := range pay {
		out = append(out, zzCharset[p])
	}
	for i := 0; i < 8; i++ {
		out = append(out, zzCharset[(mod>>uint(5*(7-i)))&0x1f])
	}
	return string(out)
}

func zzUpper(s string) string {
	b := []byte(s)
	for i, c := range b {
		if c >= 'a' && c <= 'z' {
			b[i] = c - 32
		}
	}
	return string(b)
}

// zzHashSha / zzHashRipemd call the real primitives; the engine models both as the same
// uninterpreted functions it uses inside the code under test.
func zzHashSha(b []byte) []byte {
	h := sha256.Sum256(b)
	return h[:]
}

func zzHashRipemd(b []byte) []byte {
	h := ripemd160.New()
	h.Write(b)
	return h.Sum(nil)
}
