package bchutil

import (
	"github.com/gcash/bchd/chaincfg"
)

// zzCheckDecoded asserts the C01 consequences for one rendering r of address a (string s).
func zzCheckDecoded(tag string, r string, s string, a Address, net *chaincfg.Params, wantNet bool) {
	d, err := DecodeAddress(r, net)
	vAssert(tag+":accepted", err == nil)
	if err != nil {
		return
	}
	same := false
	switch a.(type) {
	case *AddressPubKeyHash:
		_, same = d.(*AddressPubKeyHash)
	case *AddressScriptHash:
		_, same = d.(*AddressScriptHash)
	case *AddressScriptHash32:
		_, same = d.(*AddressScriptHash32)
	case *LegacyAddressPubKeyHash:
		_, same = d.(*LegacyAddressPubKeyHash)
	case *LegacyAddressScriptHash:
		_, same = d.(*LegacyAddressScriptHash)
	case *AddressPubKey:
		_, same = d.(*AddressPubKey)
	}
	vAssert(tag+":same-kind", same)
	vAssert(tag+":payload", vEqBytes(d.ScriptAddress(), a.ScriptAddress()))
	vAssert(tag+":re-encode", d.EncodeAddress() == s)
	if wantNet {
		vAssert(tag+":is-for-net", d.IsForNet(net))
	}
}

// ZZ_C01_cash: P2PKH / P2SH and their SLP forms, all nets, all 160-bit hashes.
func ZZ_C01_cash() {
	net := zzNet()
	kind := vCase("kind", 0, 3)
	slp := kind >= 2
	if slp && net.SlpAddressPrefix == "" {
		return
	}
	hash := vBytes("hash", 20)
	var a Address
	var err error
	var typ byte
	switch kind {
	case 0:
		a, err = NewAddressPubKeyHash(hash, net)
	case 1:
		a, err = NewAddressScriptHashFromHash(hash, net)
		typ = 1
	case 2:
		a, err = NewSlpAddressPubKeyHash(hash, net)
	case 3:
		a, err = NewSlpAddressScriptHashFromHash(hash, net)
		typ = 1
	}
	vAssert("constructed", err == nil)
	prefix := net.CashAddressPrefix
	if slp {
		prefix = net.SlpAddressPrefix
	}
	s := a.EncodeAddress()
	vAssert("spec-string", s == zzRefCashAddr(prefix, typ, hash))
	vAssert("string-method", a.String() == s)
	vAssert("payload-kept", vEqBytes(a.ScriptAddress(), hash))
	switch vCase("rendering", 0, 3) {
	case 0:
		zzCheckDecoded("lower", s, s, a, net, !slp)
	case 1:
		zzCheckDecoded("upper", zzUpper(s), s, a, net, !slp)
	case 2:
		zzCheckDecoded("prefixed", prefix+":"+s, s, a, net, !slp)
	case 3:
		zzCheckDecoded("prefixed-upper", zzUpper(prefix+":"+s), s, a, net, !slp)
	}
	vReach("end")
}

// ZZ_C01_p2sh32: the 32-byte script-hash kind.
func ZZ_C01_p2sh32() {
	net := zzNet()
	slp := vCase("slp", 0, 1) == 1
	if slp && net.SlpAddressPrefix == "" {
		return
	}
	hash := vBytes("hash", 32)
	var a *AddressScriptHash32
	var err error
	if slp {
		a, err = NewSlpAddressScriptHash32FromHash(hash, net)
	} else {
		a, err = NewAddressScriptHash32FromHash(hash, net)
	}
	vAssert("constructed", err == nil)
	prefix := net.CashAddressPrefix
	if slp {
		prefix = net.SlpAddressPrefix
	}
	s := a.EncodeAddress()
	vAssert("payload-kept", vEqBytes(a.ScriptAddress(), hash))
	vAssert("p2sh32:spec-string", s == zzRefCashAddr(prefix, 1, hash)) // type bits 1 (script hash), size code 3
	d, err := DecodeAddress(s, net)
	vAssert("p2sh32:accepted", err == nil)
	if err == nil {
		_, same := d.(*AddressScriptHash32)
		vAssert("p2sh32:same-kind", same)
		vAssert("p2sh32:payload", vEqBytes(d.ScriptAddress(), hash))
	}
	vReach("end")
}

// ZZ_C01_script: script-taking constructors hash as RIPEMD160(SHA256(script)) / SHA256(SHA256(script)).
func ZZ_C01_script() {
	net := zzNet()
	n := vCase("scriptlen", 0, vParam("maxscript", 3))
	script := vBytes("script", n)
	h160 := zzHashRipemd(zzHashSha(script))
	h256 := zzHashSha(zzHashSha(script))
	switch vCase("ctor", 0, 2) {
	case 0:
		a, err := NewAddressScriptHash(script, net)
		vAssert("p2sh:ok", err == nil)
		vAssert("p2sh:hash160", vEqBytes(a.ScriptAddress(), h160))
	case 1:
		a, err := NewAddressScriptHash32(script, net)
		vAssert("p2sh32:ok", err == nil)
		vAssert("p2sh32:hash256", vEqBytes(a.ScriptAddress(), h256))
	case 2:
		a, err := NewLegacyAddressScriptHash(script, net)
		vAssert("legacy:ok", err == nil)
		vAssert("legacy:hash160", vEqBytes(a.ScriptAddress(), h160))
	}
	vAssert("Hash160", vEqBytes(Hash160(script), h160))
	vAssert("Hash256", vEqBytes(Hash256(script), h256))
	vReach("end")
}

// ZZ_C01_legacy: Base58Check P2PKH / P2SH on every net (Base58 itself: abstract bijection, C07).
func ZZ_C01_legacy() {
	net := zzNet()
	hash := vBytes("hash", 20)
	// at most two leading zero bytes in the hash (the leading-zero handling belongs to Base58, C07)
	vAssume(hash[2] != 0)
	var a Address
	var err error
	var ver byte
	if vCase("kind", 0, 1) == 0 {
		a, err = NewLegacyAddressPubKeyHash(hash, net)
		ver = net.LegacyPubKeyHashAddrID
	} else {
		a, err = NewLegacyAddressScriptHashFromHash(hash, net)
		ver = net.LegacyScriptHashAddrID
	}
	vAssert("constructed", err == nil)
	s := a.EncodeAddress()
	body := append([]byte{ver}, hash...)
	body = append(body, zzDsha(body)[:4]...)
	vAssert("legacy:spec-string", s == zzB58(body))
	vAssert("legacy:payload-kept", vEqBytes(a.ScriptAddress(), hash))
	vAssert("legacy:string-method", a.String() == s)
	vAssert("legacy:is-for-net", a.IsForNet(net))
	if vParam("withdecode", 0) == 1 {
		// decoding a string of ~34 symbolic Base58 characters costs two CashAddr attempts with an
		// error exit per character each: minutes per net; not part of the registered tiers
		zzCheckDecoded("legacy", s, s, a, net, true)
	}
	vReach("end")
}

// ZZ_C01_pubkey: raw public keys in the three serialisations.
func ZZ_C01_pubkey() {
	net := zzNet()
	if vParam("allnets", 0) == 0 && net != &chaincfg.MainNetParams {
		return
	}
	format := vCase("format", vParam("minformat", 0), vParam("maxformat", 2))
	// The coordinates are symbolic in their last `symbytes` bytes only (the rest is zero): every
	// symbolic hex digit costs the decoder's CashAddr attempts two more paths.
	nsym := vParam("symbytes", 2)
	coord := func(name string) []byte {
		c := make([]byte, 32)
		copy(c[32-nsym:], vBytes(name, nsym))
		return c
	}
	var ser []byte
	switch format {
	case 0:
		ser = append([]byte{2 | vSym("ybit", 1)}, coord("x")...)
	case 1:
		ser = append(append([]byte{4}, coord("x")...), coord("y")...)
	case 2:
		ser = append(append([]byte{6 | vSym("ybit", 1)}, coord("x")...), coord("y")...)
	}
	_, perr := zzStubParsePubKey(ser, zzStubS256())
	vAssume(perr == nil)
	a, err := NewAddressPubKey(ser, net)
	vAssert("pubkey:constructed", err == nil)
	if err != nil {
		return
	}
	vAssert("pubkey:script-is-serialisation", vEqBytes(a.ScriptAddress(), ser))
	want := [3]PubKeyFormat{PKFCompressed, PKFUncompressed, PKFHybrid}[format]
	vAssert("pubkey:format", a.Format() == want)
	vAssert("pubkey:is-for-net", a.IsForNet(net))
	s := a.String()
	d, err := DecodeAddress(s, net)
	vAssert("pubkey:accepted", err == nil)
	if err != nil {
		return
	}
	pk, same := d.(*AddressPubKey)
	vAssert("pubkey:same-kind", same)
	if same {
		vAssert("pubkey:payload", vEqBytes(pk.ScriptAddress(), ser))
		vAssert("pubkey:re-encode", pk.String() == s)
		vAssert("pubkey:decoded-is-for-net", pk.IsForNet(net))
	}
	vReach("end")
}
