package bchutil

import "math"

func zzFinite(f float64) bool { return !math.IsNaN(f) && !math.IsInf(f, 0) }

// ZZ_C17_round: the rounding helper against round-half-away-from-zero on |x| < 2^62.
func ZZ_C17_round() {
	x := vF64("x")
	vAssume(zzFinite(x))
	vAssume(math.Abs(x) < 4611686018427387904.0)
	vReach("in")
	vAssert("round-is-half-away", int64(round(x)) == int64(math.Round(x)))
}

// ZZ_C17_newamount: NewAmount(f) is RNA(fl(f*1e8)); rejects NaN/Inf; odd symmetric.
func ZZ_C17_newamount() {
	f := vF64("f")
	switch vCase("what", 0, 2) {
	case 0:
		vAssume(zzFinite(f))
		p := f * 1e8
		vAssume(math.Abs(p) < 4611686018427387904.0)
		a, err := NewAmount(f)
		vReach("finite")
		vAssert("finite-accepted", err == nil)
		vAssert("nearest-satoshi", int64(a) == int64(math.Round(p)))
	case 1:
		vAssume(!zzFinite(f))
		_, err := NewAmount(f)
		vReach("nonfinite")
		vAssert("nonfinite-rejected", err != nil)
	case 2:
		vAssume(zzFinite(f))
		vAssume(math.Abs(f*1e8) < 4611686018427387904.0)
		a, _ := NewAmount(f)
		b, _ := NewAmount(-f)
		vReach("odd")
		vAssert("odd-symmetric", int64(b) == -int64(a))
	}
}

// ZZ_C17_monotone: the rounding step is monotone (the IEEE product itself is monotone: assumption).
func ZZ_C17_monotone() {
	x, y := vF64("x"), vF64("y")
	vAssume(zzFinite(x))
	vAssume(zzFinite(y))
	vAssume(math.Abs(x) < 4611686018427387904.0)
	vAssume(math.Abs(y) < 4611686018427387904.0)
	vAssume(x <= y)
	vReach("in")
	vAssert("round-monotone", int64(round(x)) <= int64(round(y)))
}

// ZZ_C17_roundtrip: satoshi -> BCH -> satoshi is the identity up to the 21M coin cap.
func ZZ_C17_roundtrip() {
	a := vI64("a")
	vAssume(a >= -2100000000000000 && a <= 2100000000000000)
	f := Amount(a).ToBCH()
	b, err := NewAmount(f)
	vReach("in")
	vAssert("roundtrip-ok", err == nil)
	vAssert("roundtrip-identity", int64(b) == a)
}

// ZZ_C17_units: the value handed to the formatter is the IEEE quotient amount / 10^(u+8), the
// power of ten being exact; unit labels.
func ZZ_C17_units() {
	a := vI64("a")
	vAssume(a >= -2100000000000000 && a <= 2100000000000000)
	u := vCase("u", -8, 12)
	p := 1.0
	for i := 0; i < u+8; i++ {
		p *= 10 // exact for exponents up to 22
	}
	got := Amount(a).ToUnit(AmountUnit(u))
	want := float64(a) / p
	vReach("in")
	vAssert("unit-quotient", got == want)
	vAssert("tobch", u != 0 || Amount(a).ToBCH() == want)
	switch AmountUnit(u) {
	case AmountMegaBCH:
		vAssert("label", AmountUnit(u).String() == "MBCH")
	case AmountKiloBCH:
		vAssert("label", AmountUnit(u).String() == "kBCH")
	case AmountBCH:
		vAssert("label", AmountUnit(u).String() == "BCH")
	case AmountMilliBCH:
		vAssert("label", AmountUnit(u).String() == "mBCH")
	case AmountMicroBCH:
		vAssert("label", AmountUnit(u).String() == "μBCH")
	case AmountSatoshi:
		vAssert("label", AmountUnit(u).String() == "Satoshi")
	}
}

// ZZ_C17_mulf64: MulF64 rounds the single IEEE product half away from zero.
func ZZ_C17_mulf64() {
	a := vI64("a")
	f := vF64("f")
	vAssume(a >= -2100000000000000 && a <= 2100000000000000)
	vAssume(zzFinite(f))
	p := float64(a) * f
	vAssume(math.Abs(p) < 4611686018427387904.0)
	vReach("in")
	vAssert("mulf64-half-away", int64(Amount(a).MulF64(f)) == int64(math.Round(p)))
}
