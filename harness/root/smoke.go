package bchutil

func ZZ_smoke() {
	n := vCase("n", 0, 3)
	pay := vSyms("pay", n, 5)
	s := encode("bitcoincash", pay)
	p, d, err := DecodeCashAddress("bitcoincash:" + s)
	vAssert("ok", err == nil)
	vAssert("prefix", p == "bitcoincash")
	vAssert("data", vEqBytes(d, pay))
	vReach("end")
}
