package bchutil

import (
	"crypto/elliptic"
	"errors"
	"math/big"

	"github.com/gcash/bchd/bchec"
	"github.com/gcash/bchutil/base58"
)

// idealised secp256k1 and Base58 boundary (same contracts as in harness/hdkeychain/stubs.go)

var zzNBytes = []byte{
	0xff, 0xff, 0xff, 0xff, 0xff, 0xff, 0xff, 0xff, 0xff, 0xff, 0xff, 0xff, 0xff, 0xff, 0xff, 0xfe,
	0xba, 0xae, 0xdc, 0xe6, 0xaf, 0x48, 0xa0, 0x3b, 0xbf, 0xd2, 0x5e, 0x8c, 0xd0, 0x36, 0x41, 0x41}

var zzCurve *bchec.KoblitzCurve

func zzStubS256() *bchec.KoblitzCurve {
	if !vSymbolic() {
		return bchec.S256()
	}
	if zzCurve == nil {
		zzCurve = &bchec.KoblitzCurve{CurveParams: &elliptic.CurveParams{N: new(big.Int).SetBytes(zzNBytes), BitSize: 256}}
	}
	return zzCurve
}

func zzPad32(x *big.Int) []byte { return x.FillBytes(make([]byte, 32)) }

func zzStubSBM(c *bchec.KoblitzCurve, k []byte) (*big.Int, *big.Int) {
	if !vSymbolic() {
		return bchec.S256().ScalarBaseMult(k)
	}
	return new(big.Int).SetBytes(vUFBytes("sbm_x", k, 32)), new(big.Int).SetBytes(vUFBytes("sbm_y", k, 32))
}

func zzStubParsePubKey(b []byte, c *bchec.KoblitzCurve) (*bchec.PublicKey, error) {
	if !vSymbolic() {
		return bchec.ParsePubKey(b, bchec.S256())
	}
	if len(b) == 0 {
		return nil, errors.New("pubkey string is empty")
	}
	format := b[0]
	ybit := format&1 == 1
	format &^= 1
	pk := &bchec.PublicKey{Curve: c}
	switch len(b) {
	case 65:
		if format != 4 && format != 6 {
			return nil, errors.New("invalid magic in pubkey str")
		}
		pk.X = new(big.Int).SetBytes(b[1:33])
		pk.Y = new(big.Int).SetBytes(b[33:])
		if format == 6 && ybit != (pk.Y.Bit(0) == 1) {
			return nil, errors.New("ybit doesn't match oddness")
		}
	case 33:
		if format != 2 {
			return nil, errors.New("invalid magic in compressed pubkey string")
		}
		pk.X = new(big.Int).SetBytes(b[1:33])
		yb := vUFBytes("decompress_y", b[1:33], 32)
		if ybit {
			yb[31] |= 1
		} else {
			yb[31] &^= 1
		}
		pk.Y = new(big.Int).SetBytes(yb)
		if vUFBytes("has_root", b[1:33], 1)[0]&1 == 0 {
			return nil, errors.New("invalid square root")
		}
	default:
		return nil, errors.New("invalid pub key length")
	}
	if vUFBytes("on_curve", append(zzPad32(pk.X), zzPad32(pk.Y)...), 1)[0]&1 == 0 {
		return nil, errors.New("pubkey isn't on secp256k1 curve")
	}
	return pk, nil
}

func zzStubSerCompressed(p *bchec.PublicKey) []byte {
	if !vSymbolic() {
		return p.SerializeCompressed()
	}
	b := make([]byte, 0, 33)
	b = append(b, 2|byte(p.Y.Bit(0)))
	return append(b, zzPad32(p.X)...)
}

func zzStubSerUncompressed(p *bchec.PublicKey) []byte {
	if !vSymbolic() {
		return p.SerializeUncompressed()
	}
	b := make([]byte, 0, 65)
	b = append(b, 4)
	b = append(b, zzPad32(p.X)...)
	return append(b, zzPad32(p.Y)...)
}

func zzStubSerHybrid(p *bchec.PublicKey) []byte {
	if !vSymbolic() {
		return p.SerializeHybrid()
	}
	b := make([]byte, 0, 65)
	b = append(b, 6|byte(p.Y.Bit(0)))
	b = append(b, zzPad32(p.X)...)
	return append(b, zzPad32(p.Y)...)
}

var zzB58Encoded []byte
var zzB58Decoded []byte

func zzStubB58Encode(b []byte) string {
	zzB58Encoded = append([]byte(nil), b...)
	return "<base58>"
}

func zzStubB58Decode(s string) []byte { return append([]byte(nil), zzB58Decoded...) }

func zzDsha(b []byte) []byte { return zzHashSha(zzHashSha(b)) }

// zzB58: the real Base58 encoder (abstract bijection inside the engine)
func zzB58(b []byte) string { return base58.Encode(b) }

func zzWifSer(w *WIF) []byte {
	str := w.String()
	if !vSymbolic() {
		return base58.Decode(str)
	}
	return append([]byte(nil), zzB58Encoded...)
}

func zzWifParse(b []byte) (*WIF, error) {
	if !vSymbolic() {
		return DecodeWIF(base58.Encode(b))
	}
	zzB58Decoded = b
	return DecodeWIF("<base58>")
}
