package bchutil

import (
	"math/big"

	"github.com/gcash/bchd/bchec"
	"github.com/gcash/bchd/chaincfg"
)

// ZZ_C06_roundtrip: every scalar in [1,n-1] (leading zero bytes included), flag and network.
func ZZ_C06_roundtrip() {
	d := vBytes("d", 32)
	dn := new(big.Int).SetBytes(d)
	vAssume(dn.Sign() != 0 && dn.Cmp(zzStubS256().N) < 0)
	compress := vCase("compress", 0, 1) == 1
	priv, pub := bchec.PrivKeyFromBytes(zzStubS256(), d)
	var w *WIF
	var netID byte
	if vCase("vianet", 0, 1) == 1 {
		net := zzNet()
		var err error
		w, err = NewWIF(priv, net, compress)
		vAssert("newwif-ok", err == nil)
		netID = net.PrivateKeyID
		vAssert("is-for-net", w.IsForNet(net))
	} else {
		netID = vU8("netid")
		w = &WIF{priv, compress, netID}
	}
	enc := zzWifSer(w)
	want := append([]byte{netID}, d...)
	if compress {
		want = append(want, 1)
	}
	want = append(want, zzDsha(want)[:4]...)
	vAssert("encoded-payload", vEqBytes(enc, want))
	if compress {
		vAssert("pubkey-compressed", vEqBytes(w.SerializePubKey(), zzStubSerCompressed(pub)))
	} else {
		vAssert("pubkey-uncompressed", vEqBytes(w.SerializePubKey(), zzStubSerUncompressed(pub)))
	}
	w2, err := zzWifParse(enc)
	vAssert("decodes-back", err == nil && w2 != nil)
	if w2 == nil {
		return
	}
	vAssert("same-flag", w2.CompressPubKey == compress)
	vAssert("same-net", w2.netID == netID)
	vAssert("same-key", vEqBytes(w2.PrivKey.D.FillBytes(make([]byte, 32)), d))
	vAssert("same-string", vEqBytes(zzWifSer(w2), want))
	vReach("end")
}

func zzWifLen() int {
	if vParam("thorough", 0) == 1 {
		return vCase("len", 0, 45)
	}
	switch vCase("lenclass", 0, 5) {
	case 0:
		return 0
	case 1:
		return 4
	case 2:
		return 36
	case 3:
		return 37
	case 4:
		return 38
	}
	return 39
}

// ZZ_C06_strict: arbitrary decoded payloads.
func ZZ_C06_strict() {
	n := zzWifLen()
	payload := vBytes("payload", n)
	if n >= 4 {
		// the checksum field is expressed as (true checksum) XOR (arbitrary delta): every byte string
		// is still covered, and a model replays natively although the solver's checksum is that of
		// the uninterpreted hash (natively the real double-SHA256 is used with the same delta)
		delta := vBytes("ckdelta", 4)
		ck := zzDsha(payload[:n-4])[:4]
		for i := 0; i < 4; i++ {
			payload[n-4+i] = ck[i] ^ delta[i]
		}
	}
	w, err := zzWifParse(payload)
	vReach("parsed")
	if err != nil {
		vAssert("nil-on-error", w == nil)
		vReach("rejected")
		return
	}
	vReach("accepted")
	vAssert("length", n == 37 || n == 38)
	if n != 37 && n != 38 {
		return
	}
	if n == 38 {
		vAssert("compress-marker", payload[33] == 1 && w.CompressPubKey)
	} else {
		vAssert("no-compress", !w.CompressPubKey)
	}
	vAssert("checksum", vEqBytes(payload[n-4:], zzDsha(payload[:n-4])[:4]))
	vAssert("net-id", w.netID == payload[0])
	vAssert("key-bytes", vEqBytes(w.PrivKey.D.FillBytes(make([]byte, 32)), payload[1:33]))
	vAssert("canonical-reencoding", vEqBytes(zzWifSer(w), payload))
	_ = chaincfg.MainNetParams
}
