package bchutil

import (
	"encoding/hex"

	"github.com/gcash/bchd/chaincfg"
)

// ZZ_selfcheck_root: the engine executes the real code CONCRETELY on published test vectors
// (CashAddr specification, Base58Check); every assertion must fold to true. This validates the
// SSA interpreter and its intrinsics against known-good outputs on each run.
func ZZ_selfcheck_root() {
	h, _ := hex.DecodeString("76a04053bda0a88bda5177b86a15c3b29f559873")
	net := &chaincfg.MainNetParams
	a, err := NewAddressPubKeyHash(h, net)
	vAssert("selfcheck:p2pkh-cashaddr", err == nil && a.EncodeAddress() == "qpm2qsznhks23z7629mms6s4cwef74vcwvy22gdx6a")
	b, err := NewAddressScriptHashFromHash(h, net)
	vAssert("selfcheck:p2sh-cashaddr", err == nil && b.EncodeAddress() == "ppm2qsznhks23z7629mms6s4cwef74vcwvn0h829pq")
	d, err := DecodeAddress("bitcoincash:qpm2qsznhks23z7629mms6s4cwef74vcwvy22gdx6a", net)
	vAssert("selfcheck:decode", err == nil && hex.EncodeToString(d.ScriptAddress()) == "76a04053bda0a88bda5177b86a15c3b29f559873")
	_, err = DecodeAddress("bitcoincash:qpm2qsznhks23z7629mms6s4cwef74vcwvy22gdx6b", net)
	vAssert("selfcheck:bad-checksum", err != nil)
	l, err := NewLegacyAddressPubKeyHash(h, net)
	vAssert("selfcheck:legacy", err == nil && l.EncodeAddress() == "1BpEi6DfDAUFd7GtittLSdBeYJvcoaVggu")
	amt, err := NewAmount(1.23456789)
	vAssert("selfcheck:amount", err == nil && int64(amt) == 123456789)
	vAssert("selfcheck:polymod", polyMod([]byte{1, 2, 3}) == zzRefPolymod([]byte{1, 2, 3}))
	vReach("end")
}
