package bchutil

import (
	"github.com/gcash/bchd/chaincfg"
)

// 32 entries, all lower-case letters: prefix letters chosen by a 5-bit index stay letters
const zzLetters = "abcdefghijklmnopqrstuvwxyzabcdef"

// ZZ_C08_cashaddr_short: CashAddr strings whose checksum is valid but that carry fewer than
// eight symbols after the separator (any 1..3 letter prefix).
func ZZ_C08_cashaddr_short() {
	np := vCase("prefixlen", 1, vParam("maxprefix", 3))
	k := vCase("nsym", 0, 9)
	var s []byte
	for i := 0; i < np; i++ {
		s = append(s, zzLetters[vSym("letter", 5)])
	}
	s = append(s, ':')
	syms := vSyms("sym", k, 5)
	for _, v := range syms {
		s = append(s, Charset[v])
	}
	vReach("in")
	prefix, data, err := DecodeCashAddress(string(s))
	if err == nil {
		vReach("accepted")
		vAssert("accepted-has-checksum-symbols", k >= 8)
		vAssert("accepted-prefix", len(prefix) == np)
		vAssert("accepted-data-len", len(data) == k-8)
	}
}

// ZZ_C08_address_raw: DecodeAddress on arbitrary short byte strings, every net.
func ZZ_C08_address_raw() {
	net := zzNet()
	if vParam("allnets", 0) == 0 && net != &chaincfg.MainNetParams && net != &chaincfg.SimNetParams {
		return
	}
	base := len(net.CashAddressPrefix)
	if len(net.SlpAddressPrefix) > base {
		base = len(net.SlpAddressPrefix)
	}
	// shorter strings are refused by the length pre-check; the interesting ones are just above it
	n := base + vCase("extra", vParam("minextra", 2), vParam("maxextra", 3))
	s := vBytes("s", n)
	for _, c := range s {
		vAssume(c < 0x80)
	}
	vReach("in")
	a, err := DecodeAddress(string(s), net)
	vAssert("value-or-error", (a == nil) == (err != nil))
}

// ZZ_C08_address_prefixed: net prefix + ':' + arbitrary symbols (checksum not necessarily valid).
func ZZ_C08_address_prefixed() {
	net := zzNet()
	pfx := net.CashAddressPrefix
	if vCase("slp", 0, 1) == 1 {
		pfx = net.SlpAddressPrefix
		if pfx == "" {
			return
		}
	}
	k := vCase("nsym", 0, vParam("maxsym", 10))
	s := []byte(pfx + ":")
	for _, v := range vSyms("sym", k, 5) {
		s = append(s, Charset[v])
	}
	vReach("in")
	a, err := DecodeAddress(string(s), net)
	vAssert("value-or-error", (a == nil) == (err != nil))
	_ = chaincfg.MainNetParams
}
