package bchutil

import (
	"bytes"
	"io"

	"github.com/gcash/bchd/chaincfg/chainhash"
	"github.com/gcash/bchd/wire"
)

// ---- stubs for the wire package (contract: Deserialize consumes exactly the serialisation) ----

var zzTxHashTab [8]*chainhash.Hash
var zzBlockHash *chainhash.Hash
var zzSer []byte
var zzDecoded *wire.MsgBlock
var zzLocs []wire.TxLoc

func zzStubTxHash(tx *wire.MsgTx) chainhash.Hash            { return *zzTxHashTab[tx.Version&7] }
func zzStubBlockHash(b *wire.MsgBlock) chainhash.Hash        { return *zzBlockHash }
func zzStubSerializeSize(b *wire.MsgBlock) int               { return len(zzSer) }
func zzStubSerialize(b *wire.MsgBlock, w io.Writer) error {
	_, err := w.Write(zzSer)
	return err
}
func zzStubDeserialize(b *wire.MsgBlock, r io.Reader) error {
	buf := make([]byte, len(zzSer))
	if _, err := io.ReadFull(r, buf); err != nil {
		return err
	}
	if !vEqBytes(buf, zzSer) {
		return io.ErrUnexpectedEOF
	}
	*b = *zzDecoded
	return nil
}
func zzStubDeserializeTxLoc(b *wire.MsgBlock, r *bytes.Buffer) ([]wire.TxLoc, error) {
	return zzLocs, nil
}

func zzMsgBlock(n int) *wire.MsgBlock {
	mb := &wire.MsgBlock{}
	mb.Header.Nonce = vU32("nonce")
	if !vSymbolic() {
		// native replay: a real block, its real hashes and its real serialisation
		for i := 0; i < n; i++ {
			tx := wire.NewMsgTx(int32(i))
			mb.Transactions = append(mb.Transactions, tx)
			h := tx.TxHash()
			zzTxHashTab[i] = &h
		}
		bh := mb.BlockHash()
		zzBlockHash = &bh
		var w bytes.Buffer
		mb.Serialize(&w)
		zzSer = w.Bytes()
		zzDecoded = mb
		return mb
	}
	for i := 0; i < n; i++ {
		h := &chainhash.Hash{}
		copy(h[:], vBytes("txid", 32))
		zzTxHashTab[i] = h
		mb.Transactions = append(mb.Transactions, &wire.MsgTx{Version: int32(i)})
	}
	bh := &chainhash.Hash{}
	copy(bh[:], vBytes("blockhash", 32))
	zzBlockHash = bh
	zzSer = vBytes("ser", 3)
	zzDecoded = mb
	zzLocs = make([]wire.TxLoc, n)
	return mb
}

// ZZ_C16_block: any constructor, any interleaving of accessors, any index.
func ZZ_C16_block() {
	n := vCase("ntx", 0, vParam("maxtx", 2))
	mb := zzMsgBlock(n)
	var b *Block
	ctor := vCase("ctor", 0, 3)
	switch ctor {
	case 0:
		b = NewBlock(mb)
	case 1:
		b = NewBlockFromBlockAndBytes(mb, append([]byte(nil), zzSer...))
	case 2, 3:
		in := append([]byte(nil), zzSer...)
		if ctor == 3 {
			in = append(in, vU8("trailing"))
		}
		var err error
		b, err = NewBlockFromBytes(in)
		vAssert("frombytes-ok", err == nil)
		if err != nil {
			return
		}
		mb = b.MsgBlock()
	}
	seen := make([]*Tx, n)
	var seenHash *chainhash.Hash
	steps := vParam("steps", 3)
	for s := 0; s < steps; s++ {
		switch vCase("op", 0, 5) {
		case 0, 1:
			i := vInt("index")
			var tx *Tx
			var err error
			var h *chainhash.Hash
			if vCase("viahash", 0, 1) == 1 {
				h, err = b.TxHash(i)
			} else {
				tx, err = b.Tx(i)
			}
			if i < 0 || i >= n {
				_, isRange := err.(OutOfRangeError)
				vAssert("out-of-range-error", isRange && tx == nil && h == nil)
				continue
			}
			vAssert("in-range-ok", err == nil)
			if tx != nil {
				vAssert("tx-wraps-message", tx.MsgTx() == mb.Transactions[i])
				vAssert("tx-index", tx.Index() == i)
				vAssert("tx-same-object", seen[i] == nil || seen[i] == tx)
				seen[i] = tx
			}
			if h != nil {
				vAssert("txhash-fresh", *h == *zzTxHashTab[i])
			}
		case 2:
			txs := b.Transactions()
			vAssert("transactions-len", len(txs) == n)
			for i, tx := range txs {
				vAssert("transactions-wrap", tx != nil && tx.MsgTx() == mb.Transactions[i] && tx.Index() == i)
				vAssert("transactions-same-object", seen[i] == nil || seen[i] == tx)
				seen[i] = tx
			}
		case 3:
			h := b.Hash()
			vAssert("hash-fresh", *h == *zzBlockHash)
			vAssert("hash-same-object", seenHash == nil || seenHash == h)
			seenHash = h
		case 4:
			by, err := b.Bytes()
			vAssert("bytes-ok", err == nil)
			vAssert("bytes-fresh", vEqBytes(by, zzSer))
		case 5:
			vAssert("height-default", b.Height() == BlockHeightUnknown)
		}
	}
	vReach("end")
}

// ZZ_C16_tx: the transaction wrapper.
func ZZ_C16_tx() {
	mb := zzMsgBlock(1)
	t := NewTx(mb.Transactions[0])
	vAssert("index-unknown", t.Index() == TxIndexUnknown)
	h1 := t.Hash()
	h2 := t.Hash()
	vAssert("hash-fresh", *h1 == *zzTxHashTab[0])
	vAssert("hash-same-object", h1 == h2 || *h1 == *h2)
	vAssert("msgtx", t.MsgTx() == mb.Transactions[0])
	i := vInt("i")
	t.SetIndex(i)
	vAssert("setindex", t.Index() == i)
	vReach("end")
}
