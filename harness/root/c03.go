package bchutil

// ZZ_C03_cash: the real decoder, run on (valid codeword XOR error pattern), accepts no pattern
// of weight 1..w. The codeword is the real encoder's output for an arbitrary payload; the
// payload cancels out of the acceptance condition (affine linearity of polyMod), so the sweep
// is over error patterns only.
func ZZ_C03_cash() {
	var prefix string
	switch vParam("prefix", 0) {
	case 0:
		prefix = "bitcoincash"
	case 1:
		prefix = "bchtest"
	case 2:
		prefix = "bchreg"
	case 3:
		prefix = "bchsim"
	case 4:
		prefix = "simpleledger"
	case 5:
		prefix = "slptest"
	case 6:
		prefix = "slpreg"
	}
	L := vParam("paylen", 34)
	w := vParam("w", 3)
	pay := vSyms("pay", L, 5)
	cw := cat(pay, createChecksum(prefix, pay))
	e := vSyms("e", L+8, 5)
	chars := make([]byte, L+8)
	for i := range cw {
		chars[i] = Charset[cw[i]^e[i]]
	}
	_, data, err := DecodeCashAddress(prefix + ":" + string(chars))
	if err != nil {
		vReach("rejected")
		return
	}
	vReach("accepted")
	_ = data
	vSupportSweep("min-distance", e, w)
}

func zzIsLowerCharset(x byte) bool {
	in := false
	for i := 0; i < len(Charset); i++ {
		in = vOr(in, x == Charset[i])
	}
	return in
}

// ZZ_C03_cash_foreign: substitutions by characters that are not (lower-case) charset symbols -
// upper-case letters, digits outside the charset, punctuation, non-ASCII - are rejected too.
// (Substitutions by other charset symbols are the support sweep's job.)
func ZZ_C03_cash_foreign() {
	prefix := "bitcoincash"
	L := vParam("paylen", 34)
	pay := vSyms("pay", L, 5)
	cw := cat(pay, createChecksum(prefix, pay))
	n := L + 8
	chars := make([]byte, n)
	cnt := 0
	for i := 0; i < n; i++ {
		c := Charset[cw[i]]
		use := vBool("use")
		x := vU8("x")
		vAssume(vImplies(use, !zzIsLowerCharset(x)))
		chars[i] = vIte8(use, x, c)
		cnt += int(vIte8(use, 1, 0))
	}
	vAssume(cnt >= 1 && cnt <= 5)
	vReach("in")
	_, _, err := DecodeCashAddress(prefix + ":" + string(chars))
	vAssert("foreign-substitution-rejected", err != nil)
}
