package bchutil

import "github.com/gcash/bchd/chaincfg"

func ZZ_dbg() {
	net := &chaincfg.MainNetParams
	pay := vSyms("pay", 34, 5)
	s := encode("bitcoincash", pay)
	a, err := DecodeAddress(s, net)
	if err != nil {
		return
	}
	vAssert("canonical", a.EncodeAddress() == s)
}
