package bchutil

import (
	"github.com/gcash/bchd/chaincfg"
)

func zzOtherNet(net *chaincfg.Params) *chaincfg.Params {
	if net.CashAddressPrefix == "bitcoincash" {
		return &chaincfg.TestNet3Params
	}
	return &chaincfg.MainNetParams
}

// zzPayLen enumerates payload symbol counts: every length near the accepted sizes plus short ones.
func zzPayLen() int {
	if vParam("thorough", 0) == 1 {
		return vCase("nsym", 0, 104)
	}
	switch vCase("nsymclass", 0, 9) {
	case 0:
		return 0
	case 1:
		return 1
	case 2:
		return 2
	case 3:
		return 8
	case 4:
		return 33
	case 5:
		return 34
	case 6:
		return 35
	case 7:
		return 53
	case 8:
		return 54
	}
	return 40
}

// ZZ_C02_cash: every string with a VALID checksum over an arbitrary 5-bit payload.
func ZZ_C02_cash() {
	net := zzNet()
	// which prefix the checksum is computed over
	var pfx string
	pk := vCase("prefixkind", 0, 3)
	switch pk {
	case 0:
		pfx = net.CashAddressPrefix
	case 1:
		pfx = net.SlpAddressPrefix
		if pfx == "" {
			return
		}
	case 2:
		pfx = zzOtherNet(net).CashAddressPrefix
	case 3:
		pfx = "zz"
	}
	n := zzPayLen()
	pay := vSyms("pay", n, 5)
	s := encode(pfx, pay)
	in := s
	explicit := vCase("explicit", 0, 1) == 1
	if explicit {
		in = pfx + ":" + s
	}
	if vCase("upper", 0, 1) == 1 {
		in = zzUpper(in)
	}
	a, err := DecodeAddress(in, net)
	vReach("decoded")
	if err != nil {
		vReach("rejected")
		return
	}
	vReach("accepted")
	// only the asked-for network's prefixes may be accepted
	vAssert("foreign-prefix-rejected", pk == 0 || pk == 1)
	// canonical: re-encoding gives back the payload string (lower case, no prefix)
	vAssert("canonical", a.EncodeAddress() == s)
	if pk == 0 {
		vAssert("is-for-net", a.IsForNet(net))
	}
	// version byte and padding, read off the 5-bit payload directly
	if n >= 2 {
		ver := pay[0]<<3 | pay[1]>>2
		vAssert("known-version", ver == 0x00 || ver == 0x08 || ver == 0x0b)
		vAssert("length-matches-version", (ver == 0x0b) == (n == 53) && (ver != 0x0b) == (n == 34))
	}
	vAssert("length", n == 34 || n == 53)
	if n == 34 {
		vAssert("padding-zero", pay[33]&0x03 == 0)
	}
	if n == 53 {
		vAssert("padding-zero", pay[52]&0x01 == 0)
	}
}

// ZZ_C02_prefix: prefixes that are close to the network's own (one letter appended, one letter
// dropped, one letter changed) never let a string through, with a checksum valid for that prefix.
func ZZ_C02_prefix() {
	net := zzNet()
	if vParam("thorough", 0) == 0 && net != &chaincfg.MainNetParams && net != &chaincfg.SimNetParams {
		return // quick: two nets (one with, one without an SLP prefix)
	}
	base := net.CashAddressPrefix
	if vCase("slp", 0, 1) == 1 {
		base = net.SlpAddressPrefix
		if base == "" {
			return
		}
	}
	var pfx string
	switch vCase("variant", 0, 3) {
	case 0:
		pfx = base + string(zzLetters[vSym("extra", 5)])
	case 1:
		pfx = base[:len(base)-1]
	case 2:
		i := vCase("pos", 0, 1) * (len(base) - 1) // first or last letter
		if vParam("thorough", 0) == 1 {
			i = vCase("anypos", 0, len(base)-1)
		}
		b := []byte(base)
		b[i] = zzLetters[vSym("repl", 5)]
		pfx = string(b)
		vAssume(pfx != base)
	case 3:
		pfx = string(zzLetters[vSym("extra", 5)]) + base
	}
	vAssume(pfx != net.CashAddressPrefix && pfx != net.SlpAddressPrefix)
	n := 34
	if vParam("thorough", 0) == 1 && vCase("long", 0, 1) == 1 {
		n = 53
	}
	pay := vSyms("pay", n, 5)
	s := encode(pfx, pay)
	in := pfx + ":" + s
	if vCase("upper", 0, 1) == 1 {
		in = zzUpper(in)
	}
	vReach("in")
	_, err := DecodeAddress(in, net)
	vAssert("near-prefix-rejected", err != nil)
}
