package txsort

import (
	"github.com/gcash/bchd/wire"
)

func zzMkTx(nin, nout, maxScript int) *wire.MsgTx {
	tx := &wire.MsgTx{Version: vI32("version"), LockTime: vU32("locktime")}
	for i := 0; i < nin; i++ {
		in := &wire.TxIn{Sequence: vU32("seq")}
		if vParam("sparsehash", 0) == 1 {
			// small key alphabet: only the two lowest and two highest stored bytes are symbolic, the
			// rest are equal constants - ties and boundary bytes at a cost independent of how the
			// comparator is written (a byte loop with early returns forks once per symbolic byte)
			h := vBytes(zzName("hash", i), 4)
			in.PreviousOutPoint.Hash[0], in.PreviousOutPoint.Hash[1] = h[0], h[1]
			in.PreviousOutPoint.Hash[30], in.PreviousOutPoint.Hash[31] = h[2], h[3]
		} else {
			copy(in.PreviousOutPoint.Hash[:], vBytes(zzName("hash", i), 32))
		}
		in.PreviousOutPoint.Index = vU32("index")
		tx.TxIn = append(tx.TxIn, in)
	}
	for i := 0; i < nout; i++ {
		out := &wire.TxOut{Value: vI64("value")}
		n := vCase("scriptlen", 0, maxScript)
		if n > 0 {
			out.PkScript = vBytes(zzName("script", i), n)
		}
		tx.TxOut = append(tx.TxOut, out)
	}
	return tx
}

// reference order (BIP69): previous txid read as a big-endian number (the stored hash is
// little-endian, so compare from byte 31 down), then index.
func zzInLessEq(a, b *wire.TxIn) bool {
	le := a.PreviousOutPoint.Index <= b.PreviousOutPoint.Index
	for k := 0; k <= 31; k++ {
		x, y := a.PreviousOutPoint.Hash[k], b.PreviousOutPoint.Hash[k]
		le = vOr(x < y, vAnd(x == y, le))
	}
	return le
}

func zzOutLessEq(a, b *wire.TxOut) bool {
	n := len(a.PkScript)
	if len(b.PkScript) < n {
		n = len(b.PkScript)
	}
	le := len(a.PkScript) <= len(b.PkScript)
	for k := n - 1; k >= 0; k-- {
		x, y := a.PkScript[k], b.PkScript[k]
		le = vOr(x < y, vAnd(x == y, le))
	}
	return vOr(a.Value < b.Value, vAnd(a.Value == b.Value, le))
}

func zzOrdered(tx *wire.MsgTx) bool {
	ok := true
	for i := 0; i+1 < len(tx.TxIn); i++ {
		ok = vAnd(ok, zzInLessEq(tx.TxIn[i], tx.TxIn[i+1]))
	}
	for i := 0; i+1 < len(tx.TxOut); i++ {
		ok = vAnd(ok, zzOutLessEq(tx.TxOut[i], tx.TxOut[i+1]))
	}
	return ok
}

func zzInEq(a, b *wire.TxIn) bool {
	return vAnd(vAnd(a.PreviousOutPoint.Hash == b.PreviousOutPoint.Hash, a.PreviousOutPoint.Index == b.PreviousOutPoint.Index),
		vAnd(a.Sequence == b.Sequence, vEqBytes(a.SignatureScript, b.SignatureScript)))
}

func zzOutEq(a, b *wire.TxOut) bool {
	return vAnd(a.Value == b.Value, vEqBytes(a.PkScript, b.PkScript))
}

// ZZ_C18_sort: Sort / InPlaceSort / IsSorted on arbitrary small transactions.
func ZZ_C18_sort() {
	nin := vCase("nin", vParam("minin", 0), vParam("maxin", 3))
	nout := vCase("nout", vParam("minout", 0), vParam("maxout", 3))
	tx := zzMkTx(nin, nout, vParam("maxscript", 2))
	origIn := append([]*wire.TxIn(nil), tx.TxIn...)
	origOut := append([]*wire.TxOut(nil), tx.TxOut...)
	var inCopy []wire.TxIn
	var outCopy []wire.TxOut
	for _, in := range tx.TxIn {
		inCopy = append(inCopy, *in)
	}
	for _, out := range tx.TxOut {
		c := *out
		c.PkScript = append([]byte(nil), out.PkScript...)
		outCopy = append(outCopy, c)
	}
	wasSorted := IsSorted(tx)
	vAssert("issorted-iff-ordered", wasSorted == zzOrdered(tx))

	s := Sort(tx)
	// original untouched: same objects in the same slots with the same contents
	for i := range origIn {
		vAssert("orig-in-slot", tx.TxIn[i] == origIn[i])
		vAssert("orig-in-contents", zzInEq(tx.TxIn[i], &inCopy[i]))
	}
	for i := range origOut {
		vAssert("orig-out-slot", tx.TxOut[i] == origOut[i])
		vAssert("orig-out-contents", zzOutEq(tx.TxOut[i], &outCopy[i]))
	}
	vAssert("copy-lengths", len(s.TxIn) == nin && len(s.TxOut) == nout)
	vAssert("copy-fields", s.Version == tx.Version && s.LockTime == tx.LockTime)
	for i := range s.TxIn {
		for j := range origIn {
			vAssert("copy-fresh-in", s.TxIn[i] != origIn[j])
		}
	}
	vAssert("sorted-order", zzOrdered(s))
	vAssert("idempotent", IsSorted(s))

	// in place: a permutation of the very same objects, in the same order as the sorted copy
	InPlaceSort(tx)
	for _, p := range origIn {
		cnt := 0
		for _, q := range tx.TxIn {
			if p == q {
				cnt++
			}
		}
		vAssert("inplace-in-permutation", cnt == 1)
	}
	for _, p := range origOut {
		cnt := 0
		for _, q := range tx.TxOut {
			if p == q {
				cnt++
			}
		}
		vAssert("inplace-out-permutation", cnt == 1)
	}
	for i := range s.TxIn {
		vAssert("same-order-in", zzInEq(s.TxIn[i], tx.TxIn[i]))
	}
	for i := range s.TxOut {
		vAssert("same-order-out", zzOutEq(s.TxOut[i], tx.TxOut[i]))
	}
	for i := range origIn {
		vAssert("inplace-in-contents", zzInEq(origIn[i], &inCopy[i]))
	}
	for i := range origOut {
		vAssert("inplace-out-contents", zzOutEq(origOut[i], &outCopy[i]))
	}
	vReach("end")
}

func zzName(prefix string, i int) string {
	return prefix + string(rune('0'+i))
}
