package base58

// ZZ_C08_checkdecode: CheckDecode returns (no panic) for every decoded byte string of 0..8 bytes,
// in particular for those whose last four bytes ARE the checksum of the rest (delta = 0), at every
// length around the 5-byte minimum.
func ZZ_C08_checkdecode() {
	m := vCase("m", 0, vParam("maxdecoded", 8))
	raw := vBytes("raw", m)
	if m >= 4 {
		delta := vBytes("ckdelta", 4)
		ck := zzDsha(raw[:m-4])[:4]
		for i := 0; i < 4; i++ {
			raw[m-4+i] = ck[i] ^ delta[i]
		}
	}
	var s string
	if vSymbolic() {
		zzDecoded = raw
		s = "<base58>"
	} else {
		s = Encode(raw)
	}
	CheckDecode(s)
	vReach("end")
}
