package base58

// ZZ_selfcheck_b58: concrete published vectors through the real code (Int-mode arithmetic folds).
func ZZ_selfcheck_b58() {
	vAssert("selfcheck:encode", Encode([]byte("Hello World!")) == "2NEpo7TZRRrLZSi2U")
	vAssert("selfcheck:decode", string(Decode("2NEpo7TZRRrLZSi2U")) == "Hello World!")
	vAssert("selfcheck:leading-zeros", Encode([]byte{0, 0, 0x28, 0x7f, 0xb4, 0xcd}) == "11233QC4")
	vAssert("selfcheck:foreign", len(Decode("0OIl")) == 0)
	vAssert("selfcheck:check", CheckEncode([]byte("Test data"), 0) == "182iP79GRURMp7oMHDU")
	vReach("end")
}
