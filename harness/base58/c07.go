package base58

import "crypto/sha256"

// The real Encode/Decode run in "Int mode": bytes and characters are mathematical integers in
// [0,255], big.Int is an SMT Int, and the two tables are uninterpreted functions with inverse
// lemmas that the engine verifies on the actual table contents (vInverseTables).

func zzPair() { vAssert("tables-are-mutual-inverses", vInverseTables(alphabet, b58[:])) }

// ZZ_C07_b58_bytes: Decode(Encode(b)) == b for every byte string; leading zeros <-> leading '1'.
func ZZ_C07_b58_bytes() {
	zzPair()
	n := vCase("n", vParam("minbytes", 0), vParam("maxbytes", 8))
	b := vIntBytes("b", n)
	if vParam("nolead", 0) == 1 && n > 0 {
		vAssume(b[0] != 0) // targeted long-input variants: no leading zero byte
	}
	orig := append([]byte(nil), b...)
	s := Encode(b)
	vAssert("encode-pure", vEqBytes(b, orig))
	zeros := 0
	for zeros < n && b[zeros] == 0 {
		zeros++
	}
	ones := 0
	for ones < len(s) && s[ones] == '1' {
		ones++
	}
	vAssert("leading-zeros-are-leading-ones", ones == zeros)
	for i := 0; i < len(s); i++ {
		vAssert("alphabet-only", b58[s[i]] != 255)
	}
	d := Decode(s)
	vAssert("decode-inverts-encode", vEqBytes(d, orig))
	vReach("end")
}

// ZZ_C07_b58_chars: Encode(Decode(s)) == s for every alphabet string; a foreign character
// anywhere gives the empty result.
func ZZ_C07_b58_chars() {
	zzPair()
	n := vCase("n", 0, vParam("maxchars", 8))
	cs := vIntBytes("s", n)
	foreign := false
	for _, c := range cs {
		foreign = vOr(foreign, b58[c] == 255)
	}
	s := string(cs)
	d := Decode(s)
	if foreign {
		vAssert("foreign-gives-empty", len(d) == 0)
		vReach("foreign")
		return
	}
	back := Encode(d)
	vAssert("encode-inverts-decode", back == s)
	vReach("end")
}

// ---- Base58Check on top of an abstract Base58 (stubs record / supply the byte strings) ---------

var zzEncoded []byte
var zzDecoded []byte

func zzStubEncode(b []byte) string {
	zzEncoded = append([]byte(nil), b...)
	return "<base58>"
}

func zzStubDecode(s string) []byte { return append([]byte(nil), zzDecoded...) }

func zzDsha(b []byte) []byte {
	h1 := sha256.Sum256(b)
	h2 := sha256.Sum256(h1[:])
	return h2[:]
}

// ZZ_C07_check: CheckEncode/CheckDecode.
func ZZ_C07_check() {
	n := vCase("n", 0, vParam("maxpayload", 6))
	payload := vBytes("payload", n)
	ver := vU8("version")
	orig := append([]byte(nil), payload...)
	var s string
	if vSymbolic() {
		CheckEncode(payload, ver)
		want := append([]byte{ver}, orig...)
		want = append(want, zzDsha(want)[:4]...)
		vAssert("checkencode-bytes", vEqBytes(zzEncoded, want))
		zzDecoded = zzEncoded
		s = "<base58>"
	} else {
		s = CheckEncode(payload, ver)
	}
	vAssert("checkencode-pure", vEqBytes(payload, orig))
	p2, v2, err := CheckDecode(s)
	vAssert("checkdecode-roundtrip", err == nil && v2 == ver && vEqBytes(p2, orig))
	vReach("roundtrip")
	// arbitrary decoded bytes: accepted iff >= 5 bytes and the last four are the checksum
	m := vCase("m", 0, vParam("maxdecoded", 8))
	raw := vBytes("raw", m)
	if m >= 4 {
		// last four bytes = (true checksum of the rest) XOR (arbitrary delta): still every byte
		// string, and a model replays natively with the real double-SHA256 and the same delta
		delta := vBytes("ckdelta", 4)
		ck := zzDsha(raw[:m-4])[:4]
		for i := 0; i < 4; i++ {
			raw[m-4+i] = ck[i] ^ delta[i]
		}
	}
	if vSymbolic() {
		zzDecoded = raw
		s = "<base58>"
	} else {
		s = Encode(raw)
	}
	p3, v3, err := CheckDecode(s)
	if err == nil {
		vAssert("accepted-length", m >= 5)
		if m >= 5 {
			vAssert("accepted-checksum", vEqBytes(raw[m-4:], zzDsha(raw[:m-4])[:4]))
			vAssert("accepted-version-payload", v3 == raw[0] && vEqBytes(p3, raw[1:m-4]))
		}
		vReach("accepted")
	} else {
		vAssert("rejected-reason", m < 5 || !vEqBytes(raw[m-4:], zzDsha(raw[:m-4])[:4]))
		vAssert("rejected-error-kind", (m < 5) == (err == ErrInvalidFormat) && (m >= 5) == (err == ErrChecksum))
		vReach("rejected")
	}
}

// ZZ_C07_b58_foreign: "any foreign character yields the empty result" over arbitrary BYTE strings
// (bit-vector bytes, so non-ASCII bytes and multi-byte UTF-8 sequences are included; the Int-mode
// harness above covers the arithmetic, this one covers the scanning).
func ZZ_C07_b58_foreign() {
	n := vCase("n", 1, vParam("maxchars", 3))
	cs := vBytes("s", n)
	foreign := false
	for _, c := range cs {
		foreign = vOr(foreign, b58[c] == 255)
	}
	vAssume(foreign)
	d := Decode(string(cs))
	vAssert("foreign-gives-empty", len(d) == 0)
	_, _, err := CheckDecode(string(cs))
	vAssert("foreign-check-rejected", err != nil)
	vReach("end")
}
