package jsonpb

import (
	"errors"

	"github.com/gcash/bchd/chaincfg/chainhash"
)

// ---- decoders are dependency code: arbitrary result -----------------------------------------

func zzDecodeResult() ([]byte, error) {
	if vCase("decodefails", 0, 1) == 1 {
		return nil, errors.New("decode error")
	}
	switch vCase("decodedlen", 0, 2) {
	case 0:
		return []byte{}, nil
	case 1:
		return []byte{1}, nil
	}
	return make([]byte, 32), nil
}

type zzEnc struct{}

func zzStubB64Decode(e interface{}, s string) ([]byte, error) { return zzDecodeResult() }
func zzStubHexDecode(s string) ([]byte, error)                { return zzDecodeResult() }
func zzStubNewHashFromStr(s string) (*chainhash.Hash, error) {
	if vCase("hashfails", 0, 1) == 1 {
		return nil, errors.New("bad hash string")
	}
	return &chainhash.Hash{}, nil
}

// zzNode builds an arbitrary decoded-JSON value of the given depth.
func zzNode(depth int) interface{} {
	max := 5
	if depth == 0 {
		max = 3
	}
	switch vCase("kind", 0, max) {
	case 0:
		return nil
	case 1:
		if vCase("strlen", 0, 1) == 0 {
			return ""
		}
		return "x"
	case 2:
		return 1.5
	case 3:
		return true
	case 4:
		m := map[string]interface{}{}
		w := vCase("width", 0, vParam("width", 2))
		for i := 0; i < w; i++ {
			m[string(rune('a'+i))] = zzNode(depth - 1)
		}
		return m
	}
	var l []interface{}
	w := vCase("width", 0, vParam("width", 2))
	for i := 0; i < w; i++ {
		l = append(l, zzNode(depth-1))
	}
	return l
}

// ZZ_C08_convert: the two JSON rewriting passes on arbitrary decoded JSON trees.
func ZZ_C08_convert() {
	v := zzNode(vParam("depth", 2))
	vReach("in")
	if vCase("which", 0, 1) == 0 {
		convertHex(v)
	} else {
		convertBase64(v)
	}
	vReach("end")
}

func zzStubB64Encode(e interface{}, b []byte) string { return "b64" }
func zzStubHexEncode(b []byte) string                 { return "hex" }
