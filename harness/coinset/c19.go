package coinset

import (
	"github.com/gcash/bchd/chaincfg/chainhash"
	"github.com/gcash/bchutil"
)

type zzCoin struct {
	hash chainhash.Hash
	idx  uint32
	val  int64
	age  int64
}

func (c *zzCoin) Hash() *chainhash.Hash   { return &c.hash }
func (c *zzCoin) Index() uint32           { return c.idx }
func (c *zzCoin) Value() bchutil.Amount   { return bchutil.Amount(c.val) }
func (c *zzCoin) PkScript() []byte        { return nil }
func (c *zzCoin) NumConfs() int64         { return 1 }
func (c *zzCoin) ValueAge() int64         { return c.age }

func zzCoins(n int) []Coin {
	var out []Coin
	for i := 0; i < n; i++ {
		c := &zzCoin{idx: uint32(i), val: vI64("val"), age: vI64("age")}
		c.hash[0] = byte(i + 1)
		vAssume(c.val >= 0 && c.val <= 1<<50)
		vAssume(c.age >= 0 && c.age <= 1<<56)
		out = append(out, c)
	}
	return out
}

func zzIndexOf(list []Coin, c Coin) int {
	for i, x := range list {
		if x == c {
			return i
		}
	}
	return -1
}

// zzCheckSelection: the parts of C19 common to every selector.
func zzCheckSelection(tag string, offered []Coin, sel Coins, target, minChange int64, maxInputs int) []Coin {
	picked := sel.Coins()
	var total, totalAge int64
	for i, c := range picked {
		vAssert(tag+":from-offer", zzIndexOf(offered, c) >= 0)
		for j := 0; j < i; j++ {
			vAssert(tag+":distinct", picked[j] != c)
		}
		total += int64(c.Value())
		totalAge += c.ValueAge()
	}
	vAssert(tag+":max-inputs", len(picked) <= maxInputs)
	vAssert(tag+":target", total == target || total >= target+minChange)
	if cs, ok := sel.(*CoinSet); ok {
		vAssert(tag+":cached-num", cs.Num() == len(picked))
		vAssert(tag+":cached-value", int64(cs.TotalValue()) == total)
		vAssert(tag+":cached-valueage", cs.TotalValueAge() == totalAge)
	}
	return picked
}

func zzSat(target, minChange, total int64) bool {
	return total == target || total >= target+minChange
}

// ZZ_C19_select: the four selectors on arbitrary small coin lists.
func ZZ_C19_select() {
	n := vCase("ncoins", vParam("mincoins", 0), vParam("maxcoins", 3))
	coins := zzCoins(n)
	target := vI64("target")
	minChange := vI64("minchange")
	maxInputs := vInt("maxinputs")
	vAssume(target >= 0 && target <= 1<<52)
	vAssume(minChange >= 0 && minChange <= 1<<52)
	vAssume(maxInputs >= -1 && maxInputs <= 6)
	which := vCase("selector", vParam("minsel", 0), vParam("maxsel", 3))
	switch which {
	case 0:
		sel, err := MinIndexCoinSelector{MaxInputs: maxInputs, MinChangeAmount: bchutil.Amount(minChange)}.CoinSelect(bchutil.Amount(target), coins)
		if err != nil {
			vReach("minindex-fail")
			// failure is justified: no prefix within MaxInputs qualifies
			var t int64
			for i := 0; i < n; i++ {
				t += coins[i].(*zzCoin).val
				vAssert("minindex:fail-justified", i+1 > maxInputs || !zzSat(target, minChange, t))
			}
			return
		}
		vReach("minindex-ok")
		picked := zzCheckSelection("minindex", coins, sel, target, minChange, maxInputs)
		var t int64
		for i, c := range picked {
			vAssert("minindex:is-prefix", c == coins[i])
			if i+1 < len(picked) {
				t += int64(c.Value())
				vAssert("minindex:shortest", !zzSat(target, minChange, t))
			}
		}
		vAssert("minindex:nonempty", len(picked) >= 1)
	case 1, 2:
		var sel Coins
		var err error
		key := func(c Coin) int64 { return int64(c.Value()) }
		tag := "minnumber"
		if which == 1 {
			sel, err = MinNumberCoinSelector{MaxInputs: maxInputs, MinChangeAmount: bchutil.Amount(minChange)}.CoinSelect(bchutil.Amount(target), coins)
		} else {
			tag = "maxvalueage"
			key = func(c Coin) int64 { return c.ValueAge() }
			sel, err = MaxValueAgeCoinSelector{MaxInputs: maxInputs, MinChangeAmount: bchutil.Amount(minChange)}.CoinSelect(bchutil.Amount(target), coins)
		}
		if err != nil {
			vReach(tag + "-fail")
			return
		}
		vReach(tag + "-ok")
		picked := zzCheckSelection(tag, coins, sel, target, minChange, maxInputs)
		// prefix of the descending order: picked is descending and dominates everything left out
		var t int64
		for i, c := range picked {
			if i+1 < len(picked) {
				vAssert(tag+":descending", key(c) >= key(picked[i+1]))
				t += int64(c.Value())
				vAssert(tag+":shortest", !zzSat(target, minChange, t))
			}
		}
		if len(picked) > 0 {
			last := picked[len(picked)-1]
			for _, c := range coins {
				if zzIndexOf(picked, c) < 0 {
					vAssert(tag+":dominates-rest", key(c) <= key(last))
				}
			}
		}
	case 3:
		minAvg := vI64("minavg")
		vAssume(minAvg >= 0 && minAvg <= 1<<56)
		sel, err := MinPriorityCoinSelector{MaxInputs: maxInputs, MinChangeAmount: bchutil.Amount(minChange), MinAvgValueAgePerInput: minAvg}.CoinSelect(bchutil.Amount(target), coins)
		if err != nil {
			vReach("minpriority-fail")
			return
		}
		vReach("minpriority-ok")
		picked := zzCheckSelection("minpriority", coins, sel, target, minChange, maxInputs)
		var totalAge int64
		for _, c := range picked {
			totalAge += c.ValueAge()
		}
		vAssert("minpriority:nonempty", len(picked) >= 1)
		if len(picked) >= 1 {
			vAssert("minpriority:avg-valueage", totalAge/int64(len(picked)) >= minAvg)
		}
	}
}

// ZZ_C19_coinset: push/pop/shift histories keep the cached totals equal to the sums.
func ZZ_C19_coinset() {
	n := vCase("ncoins", 0, 2)
	pool := zzCoins(3)
	cs := NewCoinSet(pool[:n])
	model := append([]Coin(nil), pool[:n]...)
	steps := vParam("steps", 3)
	next := n
	for s := 0; s < steps; s++ {
		switch vCase("op", 0, 2) {
		case 0:
			if next >= len(pool) {
				return
			}
			cs.PushCoin(pool[next])
			model = append(model, pool[next])
			next++
		case 1:
			c := cs.PopCoin()
			if len(model) == 0 {
				vAssert("pop-empty-nil", c == nil)
			} else {
				vAssert("pop-returns-last", c == model[len(model)-1])
				model = model[:len(model)-1]
			}
		case 2:
			c := cs.ShiftCoin()
			if len(model) == 0 {
				vAssert("shift-empty-nil", c == nil)
			} else {
				vAssert("shift-returns-first", c == model[0])
				model = model[1:]
			}
		}
		got := cs.Coins()
		vAssert("contents-len", len(got) == len(model) && cs.Num() == len(model))
		var tv, ta int64
		for i, c := range model {
			if i < len(got) {
				vAssert("contents-order", got[i] == c)
			}
			tv += int64(c.Value())
			ta += c.ValueAge()
		}
		vAssert("total-value", int64(cs.TotalValue()) == tv)
		vAssert("total-valueage", cs.TotalValueAge() == ta)
	}
	tx := NewMsgTxWithInputCoins(vI32("version"), cs)
	vAssert("tx-inputs-len", len(tx.TxIn) == len(model))
	for i, c := range model {
		if i < len(tx.TxIn) {
			vAssert("tx-input-outpoint", tx.TxIn[i].PreviousOutPoint.Hash == *c.Hash() && tx.TxIn[i].PreviousOutPoint.Index == c.Index())
		}
	}
	vAssert("tx-no-outputs", len(tx.TxOut) == 0)
	vReach("end")
}
