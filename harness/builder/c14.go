package builder

import (
	"bytes"
	"crypto/sha256"
	"encoding/binary"

	"github.com/gcash/bchd/chaincfg/chainhash"
	"github.com/gcash/bchd/wire"
	"github.com/gcash/bchutil/gcs"
)

// ---- stubs (installed by the engine; natively the real functions run) ---------------------------

var zzBlockHash chainhash.Hash

func zzStubBlockHash(b *wire.MsgBlock) chainhash.Hash { return zzBlockHash }

// recording stub for gcs.BuildGCSFilter: the builder's job is WHAT it hands to the encoder (the
// encoder itself is the subject of the gcs harnesses)
var (
	zzGotP    uint8
	zzGotM    uint64
	zzGotKey  [gcs.KeySize]byte
	zzGotData [][]byte
	zzBuilds  int
)

func zzStubBuild(P uint8, M uint64, key [gcs.KeySize]byte, data [][]byte) (*gcs.Filter, error) {
	zzGotP, zzGotM, zzGotKey, zzGotData = P, M, key, data
	zzBuilds++
	return nil, nil
}

func zzName(prefix string, i int) string { return prefix + string(rune('0'+i)) }

func zzDsha(b []byte) []byte {
	h1 := sha256.Sum256(b)
	h2 := sha256.Sum256(h1[:])
	return h2[:]
}

// zzMkTx: a transaction with 0..maxin inputs and 0..maxout outputs; outpoint hashes differ in one
// symbolic byte, indices are fully symbolic, scripts have 0..maxscript symbolic bytes.
func zzMkTx(t int) *wire.MsgTx {
	tx := &wire.MsgTx{Version: int32(t)}
	nin := vCase("nin", 0, vParam("maxin", 2))
	for i := 0; i < nin; i++ {
		in := &wire.TxIn{}
		in.PreviousOutPoint.Hash[0] = vU8("prevhash")
		in.PreviousOutPoint.Index = vU32("previndex")
		tx.TxIn = append(tx.TxIn, in)
	}
	nout := vCase("nout", 0, vParam("maxout", 2))
	for i := 0; i < nout; i++ {
		out := &wire.TxOut{Value: vI64("value")}
		switch vCase("scriptlen", 0, vParam("maxscript", 1)+1) {
		case 0:
			out.PkScript = nil
		case 1:
			out.PkScript = []byte{}
		default:
			out.PkScript = vBytes("script", vParam("maxscript", 1))
		}
		tx.TxOut = append(tx.TxOut, out)
	}
	return tx
}

func zzOutpoint(op *wire.OutPoint) []byte {
	b := make([]byte, 36)
	copy(b, op.Hash[:])
	binary.LittleEndian.PutUint32(b[32:], op.Index)
	return b
}

// zzWant: the BIP158 basic-filter element list (with repetitions): outpoints spent by the inputs
// of every transaction from index `from` on, and every non-empty output script.
func zzWant(txs []*wire.MsgTx, from int) [][]byte {
	var want [][]byte
	for i, tx := range txs {
		if i >= from {
			for _, in := range tx.TxIn {
				want = append(want, zzOutpoint(&in.PreviousOutPoint))
			}
		}
		for _, out := range tx.TxOut {
			if len(out.PkScript) > 0 {
				want = append(want, out.PkScript)
			}
		}
	}
	return want
}

func zzSameSet(tag string, got, want [][]byte) {
	for i := range got {
		in := false
		for j := range want {
			in = vOr(in, vEqBytes(got[i], want[j]))
		}
		vAssert(tag+":only-specified-elements", in)
		for j := i + 1; j < len(got); j++ {
			vAssert(tag+":de-duplicated", !vEqBytes(got[i], got[j]))
		}
	}
	for j := range want {
		in := false
		for i := range got {
			in = vOr(in, vEqBytes(got[i], want[j]))
		}
		vAssert(tag+":every-specified-element", in)
	}
}

// ZZ_C14_builder: BuildBasicFilter / BuildMempoolFilter hand the encoder exactly the specified
// set, the key derived from the block hash (zero for the mempool filter), P=19 and M=784931.
func ZZ_C14_builder() {
	ntx := vCase("ntx", 1, vParam("maxtx", 2))
	var txs []*wire.MsgTx
	for t := 0; t < ntx; t++ {
		txs = append(txs, zzMkTx(t))
	}
	mempool := vCase("mempool", 0, 1) == 1
	var wantKey [gcs.KeySize]byte
	var want [][]byte
	var f *gcs.Filter
	var err error
	if mempool {
		f, err = BuildMempoolFilter(txs)
		want = zzWant(txs, 0)
	} else {
		copy(zzBlockHash[:], vBytes("blockhash", 32))
		block := &wire.MsgBlock{Transactions: txs}
		if !vSymbolic() {
			zzBlockHash = block.BlockHash()
		}
		f, err = BuildBasicFilter(block)
		copy(wantKey[:], zzBlockHash[:gcs.KeySize])
		want = zzWant(txs, 1)
	}
	vAssert("build-ok", err == nil)
	if err != nil {
		return
	}
	if !vSymbolic() {
		// native replay: the real encoder ran; compare with the encoder applied to the specified set
		// (one verdict for all set/parameter labels: the filter is, or is not, the encoding of the
		// specified set under the specified key and parameters)
		ref, rerr := gcs.BuildGCSFilter(19, 784931, wantKey, want)
		ok := rerr == nil
		if ok {
			a, _ := f.NBytes()
			b, _ := ref.NBytes()
			ok = bytes.Equal(a, b) && f.P() == 19
			for _, e := range want {
				m, _ := f.Match(wantKey, e)
				ok = ok && m
			}
		}
		for _, l := range []string{"set:only-specified-elements", "set:de-duplicated", "set:every-specified-element", "P=19", "M=784931", "key"} {
			vAssert(l, ok)
		}
		return
	}
	vAssert("one-encoder-call", zzBuilds == 1)
	vAssert("P=19", zzGotP == 19)
	vAssert("M=784931", zzGotM == 784931)
	vAssert("key", zzGotKey == wantKey)
	zzSameSet("set", zzGotData, want)
	vReach("end")
}

// ZZ_C14_filterhash: filter hash = double-SHA256 of the N-prefixed bytes; header = double-SHA256 of
// hash || previous header.
func ZZ_C14_filterhash() {
	n := vCase("nbytes", 0, vParam("maxbytes", 2))
	f, err := gcs.FromBytes(vU32("N"), 19, 784931, vBytes("filter", n))
	if err != nil {
		return
	}
	nb, err := f.NBytes()
	vAssert("nbytes-ok", err == nil)
	h, err := GetFilterHash(f)
	vAssert("hash-ok", err == nil)
	vAssert("filter-hash", vEqBytes(h[:], zzDsha(nb)))
	var prev chainhash.Hash
	copy(prev[:], vBytes("prev", 32))
	hdr, err := MakeHeaderForFilter(f, prev)
	vAssert("header-ok", err == nil)
	vAssert("filter-header", vEqBytes(hdr[:], zzDsha(append(append([]byte(nil), h[:]...), prev[:]...))))
	vReach("end")
}
