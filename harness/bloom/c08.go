package bloom

import (
	"github.com/gcash/bchd/chaincfg/chainhash"
	"github.com/gcash/bchd/wire"
)

// ZZ_C08_filterload: any filter-load message within the wire limits (filter of 0..36000 bytes,
// 0..50 hash functions), then the matching / insertion entry points.
func ZZ_C08_filterload() {
	zzNextTag = 0
	buf := vBuf("filter", 0, 36000)
	k := uint32(vCase("hashfuncs", 0, vParam("maxk", 2)))
	if vParam("with50", 0) == 1 && vCase("maxfuncs", 0, 1) == 1 {
		k = 50
	}
	msg := &wire.MsgFilterLoad{Filter: buf, HashFuncs: k, Tweak: vU32("tweak"), Flags: wire.BloomUpdateType(vU8("flags"))}
	bf := LoadFilter(msg)
	item := vBytes("item", 3)
	op := wire.OutPoint{Index: vU32("opindex")}
	var h chainhash.Hash
	vReach("in")
	switch vCase("op", 0, vParam("maxop", 6)) {
	case 0:
		bf.Matches(item)
	case 1:
		bf.Add(item)
	case 2:
		bf.MatchesOutPoint(&op)
	case 3:
		bf.AddOutPoint(&op)
	case 4:
		bf.AddHash(&h)
	case 5:
		tx := zzTx(0, 1, 1)
		bf.MatchTxAndUpdate(tx)
	case 6:
		bf.IsLoaded()
		bf.MsgFilterLoad()
	}
	vReach("end")
}

// ZZ_C08_newfilter: NewFilter followed by use, for every argument (including 0 elements).
func ZZ_C08_newfilter() {
	bf := NewFilter(vU32("elements"), vU32("tweak"), vF64("fprate"), wire.BloomUpdateNone)
	item := vBytes("item", 2)
	vReach("in")
	if vCase("op", 0, 1) == 0 {
		bf.Add(item)
	} else {
		bf.Matches(item)
	}
	vReach("end")
}
