package bloom

import (
	"encoding/binary"
	"errors"
	"sync"
	"time"

	"github.com/gcash/bchd/chaincfg/chainhash"
	"github.com/gcash/bchd/txscript"
	"github.com/gcash/bchd/wire"
	"github.com/gcash/bchutil"
)

// ---- stubs for dependency code (installed by the engine; natively the real functions run) ---

type zzParse struct {
	fail   bool
	pushes [][]byte
	class  txscript.ScriptClass
}

// scripts carry a concrete tag in their first byte; the tag selects the (symbolic) parse result
var zzParseTab [16]*zzParse
var zzTxHashTab [8]*chainhash.Hash

func zzStubPushedData(script []byte) ([][]byte, error) {
	if len(script) == 0 {
		return nil, nil
	}
	p := zzParseTab[script[0]&15]
	if p.fail {
		return nil, errors.New("unparsable script")
	}
	return p.pushes, nil
}

func zzStubScriptClass(script []byte) txscript.ScriptClass {
	if len(script) == 0 {
		return txscript.NonStandardTy
	}
	return zzParseTab[script[0]&15].class
}

func zzStubTxHash(tx *wire.MsgTx) chainhash.Hash {
	return *zzTxHashTab[tx.Version&7]
}

var zzNextTag byte

func zzScript() []byte {
	tag := zzNextTag
	zzNextTag++
	p := &zzParse{fail: vBool("parsefail"), class: txscript.ScriptClass(vU8("class"))}
	np := vCase("npushes", 0, vParam("maxpushes", 2))
	for i := 0; i < np; i++ {
		n := vCase("pushlen", 0, vParam("maxpushlen", 2))
		var b []byte
		if n > 0 {
			b = vBytes("push", n)
		} else if vCase("nilpush", 0, 1) == 1 {
			b = []byte{}
		}
		p.pushes = append(p.pushes, b)
	}
	zzParseTab[tag] = p
	sb := vU8("scriptbyte")
	if !vSymbolic() {
		// native replay: a REAL script with the same parse result - one data push per modelled push
		// (OP_DATA_n), or a truncated OP_PUSHDATA1 when the model says the script does not parse
		if p.fail {
			return []byte{0x4c}
		}
		var script []byte
		for _, d := range p.pushes {
			if len(d) == 0 {
				script = append(script, 0x00) // OP_0: an empty push
				continue
			}
			script = append(script, byte(len(d)))
			script = append(script, d...)
		}
		return script
	}
	return []byte{tag, sb}
}

func zzTx(tag int, nout, nin int) *bchutil.Tx {
	var h chainhash.Hash
	copy(h[:], vBytes("txid", 32))
	zzTxHashTab[tag] = &h
	m := &wire.MsgTx{Version: int32(tag)}
	for i := 0; i < nout; i++ {
		m.TxOut = append(m.TxOut, &wire.TxOut{Value: vI64("value"), PkScript: zzScript()})
	}
	for i := 0; i < nin; i++ {
		in := &wire.TxIn{SignatureScript: zzScript()}
		copy(in.PreviousOutPoint.Hash[:], vBytes("prevhash", 32))
		in.PreviousOutPoint.Index = vU32("previndex")
		m.TxIn = append(m.TxIn, in)
	}
	return bchutil.NewTx(m)
}

// ---- reference: BIP37 IsRelevantAndUpdate on a plain byte array -----------------------------

type zzRefFilter struct {
	bits  []byte
	k     uint32
	tweak uint32
	flags wire.BloomUpdateType
}

func (f *zzRefFilter) contains(item []byte) bool {
	all := true
	for i := uint32(0); i < f.k; i++ {
		bit := zzRefBit(i, f.tweak, item, len(f.bits))
		all = vAnd(all, f.bits[bit>>3]&(1<<(bit&7)) != 0)
	}
	return all
}

func (f *zzRefFilter) insert(item []byte) {
	for i := uint32(0); i < f.k; i++ {
		bit := zzRefBit(i, f.tweak, item, len(f.bits))
		f.bits[bit>>3] |= 1 << (bit & 7)
	}
}

func zzOutpointBytes(h *chainhash.Hash, idx uint32) []byte {
	b := make([]byte, 36)
	copy(b, h[:])
	binary.LittleEndian.PutUint32(b[32:], idx)
	return b
}

func (f *zzRefFilter) relevantAndUpdate(tx *bchutil.Tx) bool {
	txid := tx.Hash()
	found := f.contains(txid[:])
	for i, out := range tx.MsgTx().TxOut {
		pushes, err := zzStubPushedData(out.PkScript)
		if err != nil {
			continue
		}
		for _, d := range pushes {
			if !f.contains(d) {
				continue
			}
			found = true
			switch f.flags {
			case wire.BloomUpdateAll:
				f.insert(zzOutpointBytes(txid, uint32(i)))
			case wire.BloomUpdateP2PubkeyOnly:
				c := zzStubScriptClass(out.PkScript)
				if c == txscript.PubKeyTy || c == txscript.MultiSigTy {
					f.insert(zzOutpointBytes(txid, uint32(i)))
				}
			}
			break
		}
	}
	if found {
		return true
	}
	for _, in := range tx.MsgTx().TxIn {
		if f.contains(zzOutpointBytes(&in.PreviousOutPoint.Hash, in.PreviousOutPoint.Index)) {
			return true
		}
		pushes, err := zzStubPushedData(in.SignatureScript)
		if err != nil {
			continue
		}
		for _, d := range pushes {
			if f.contains(d) {
				return true
			}
		}
	}
	return false
}

// ZZ_C10_matchtx: MatchTxAndUpdate against the reference, result and final bit array.
func ZZ_C10_matchtx() {
	zzNextTag = 0
	bf, buf, k := zzFilter(vParam("maxk", 2))
	ref := &zzRefFilter{bits: vBufClone(buf), k: k, tweak: bf.msgFilterLoad.Tweak, flags: bf.msgFilterLoad.Flags}
	tx := zzTx(0, vCase("nout", 0, vParam("maxout", 2)), vCase("nin", 0, vParam("maxin", 1)))
	if !vSymbolic() {
		// native replay: the model's filter contents do not line up with the real MurmurHash3, so
		// the same transaction is run against filters that contain exactly one candidate item each
		// (the txid, each spent outpoint, each pushed datum), implementation vs reference
		var items [][]byte
		txid := tx.Hash()
		items = append(items, txid[:])
		for _, in := range tx.MsgTx().TxIn {
			items = append(items, zzOutpointBytes(&in.PreviousOutPoint.Hash, in.PreviousOutPoint.Index))
			if p, err := txscript.PushedData(in.SignatureScript); err == nil {
				items = append(items, p...)
			}
		}
		for _, out := range tx.MsgTx().TxOut {
			if p, err := txscript.PushedData(out.PkScript); err == nil {
				items = append(items, p...)
			}
		}
		if len(buf) == 0 {
			return
		}
		if k == 0 {
			k = 1
			bf.msgFilterLoad.HashFuncs = 1
			ref.k = 1
		}
		for _, it := range items {
			for i := range buf {
				buf[i] = 0
				ref.bits[i] = 0
			}
			r0 := &zzRefFilter{bits: ref.bits, k: k, tweak: ref.tweak, flags: ref.flags}
			r0.insert(it)
			copy(buf, ref.bits)
			g := bf.MatchTxAndUpdate(tx)
			w := zzNativeRelevant(r0, tx)
			vAssert("match-result", g == w)
			same := true
			for i := range buf {
				if buf[i] != r0.bits[i] {
					same = false
				}
			}
			vAssert("filter-update", same)
		}
		return
	}
	got := bf.MatchTxAndUpdate(tx)
	want := ref.relevantAndUpdate(tx)
	vAssert("match-result", got == want)
	j := vInt("probe")
	vAssume(j >= 0 && j < len(buf))
	vAssert("filter-update", buf[j] == ref.bits[j])
	vReach("end")
}

// zzNativeRelevant: the reference with the REAL script parser (native replay only).
func zzNativeRelevant(f *zzRefFilter, tx *bchutil.Tx) bool {
	txid := tx.Hash()
	found := f.contains(txid[:])
	for i, out := range tx.MsgTx().TxOut {
		pushes, err := txscript.PushedData(out.PkScript)
		if err != nil {
			continue
		}
		for _, d := range pushes {
			if !f.contains(d) {
				continue
			}
			found = true
			switch f.flags {
			case wire.BloomUpdateAll:
				f.insert(zzOutpointBytes(txid, uint32(i)))
			case wire.BloomUpdateP2PubkeyOnly:
				c := txscript.GetScriptClass(out.PkScript)
				if c == txscript.PubKeyTy || c == txscript.MultiSigTy {
					f.insert(zzOutpointBytes(txid, uint32(i)))
				}
			}
			break
		}
	}
	if found {
		return true
	}
	for _, in := range tx.MsgTx().TxIn {
		if f.contains(zzOutpointBytes(&in.PreviousOutPoint.Hash, in.PreviousOutPoint.Index)) {
			return true
		}
		pushes, err := txscript.PushedData(in.SignatureScript)
		if err != nil {
			continue
		}
		for _, d := range pushes {
			if f.contains(d) {
				return true
			}
		}
	}
	return false
}

// ZZ_C20_locking: every exported method touches the shared message only inside one critical
// section of the filter's mutex and leaves the mutex released.
func ZZ_C20_locking() {
	zzNextTag = 0
	bf, _, _ := zzFilter(2)
	if vCase("loaded", 0, 1) == 0 {
		bf.msgFilterLoad = nil
	}
	tx := zzTx(0, 1, 1)
	tx.Hash()
	item := vBytes("item", 3)
	op := wire.OutPoint{Index: vU32("opindex")}
	var h chainhash.Hash
	msg2 := &wire.MsgFilterLoad{Filter: vBytes("filter2", 2), HashFuncs: 1}
	mu := &bf.mtx // whatever lock type the filter uses
	method := vCase("method", 0, 10)
	if method == 10 && vSymbolic() {
		// a transaction that spends its own output does not exist (the block scan would recurse on it)
		vAssume(tx.MsgTx().TxIn[0].PreviousOutPoint.Hash != *tx.Hash())
	}
	if !vSymbolic() {
		// native replay: the discipline failure must show up as a data race under -race.
		// A saturated filter with the update-all flag makes every transaction take the update path.
		if bf.msgFilterLoad != nil {
			for i := range bf.msgFilterLoad.Filter {
				bf.msgFilterLoad.Filter[i] = 0xff
			}
			if len(bf.msgFilterLoad.Filter) == 0 {
				bf.msgFilterLoad.Filter = []byte{0xff}
			}
			bf.msgFilterLoad.HashFuncs = 1
			bf.msgFilterLoad.Flags = wire.BloomUpdateAll
		}
		tx = zzNativeTx()
		// a lock taken twice shows up as a call that never returns: one call per update flag and
		// output-script class (data push, pay-to-pubkey, bare multisig) under a watchdog first
		if bf.msgFilterLoad != nil {
			for _, fl := range []wire.BloomUpdateType{wire.BloomUpdateAll, wire.BloomUpdateP2PubkeyOnly, wire.BloomUpdateNone} {
				for kind := 0; kind < 3; kind++ {
					bf.msgFilterLoad.Flags = fl
					done := make(chan struct{})
					go func() {
						zzCall(bf, method, item, &op, &h, msg2, zzNativeTxKind(kind))
						close(done)
					}()
					select {
					case <-done:
					case <-time.After(5 * time.Second):
						vAssert("lock:double-lock", false)
						vAssert("lock:released-at-return", false)
						return
					}
					if bf.msgFilterLoad == nil {
						break
					}
				}
				if bf.msgFilterLoad == nil {
					break
				}
			}
			if bf.msgFilterLoad != nil {
				bf.msgFilterLoad.Flags = wire.BloomUpdateAll
			}
		}
		var wg sync.WaitGroup
		for g := 0; g < 8; g++ {
			wg.Add(1)
			go func(g int) {
				defer wg.Done()
				for r := 0; r < 200; r++ {
					if g%2 == 0 {
						zzCall(bf, method, item, &op, &h, msg2, tx)
					} else {
						zzCall(bf, 1+(g+r)%8, item, &op, &h, msg2, tx)
					}
				}
			}(g)
		}
		wg.Wait()
		return
	}
	// everything reachable from the filter except the lock itself is shared state
	vWatch(mu, bf.msgFilterLoad)
	vWatch(mu, bf)
	zzCall(bf, method, item, &op, &h, msg2, tx)
	vAssert("lock:released-at-return", !vHeld(mu))
	vAssert("lock:shared-state-was-accessed", vWatchHits() > 0)
	vReach("end")
}

func zzCall(bf *Filter, method int, item []byte, op *wire.OutPoint, h *chainhash.Hash, msg2 *wire.MsgFilterLoad, tx *bchutil.Tx) {
	switch method {
	case 0:
		bf.IsLoaded()
	case 1:
		bf.Reload(msg2)
	case 2:
		bf.Unload()
	case 3:
		bf.Matches(item)
	case 4:
		bf.MatchesOutPoint(op)
	case 5:
		bf.Add(item)
	case 6:
		bf.AddHash(h)
	case 7:
		bf.AddOutPoint(op)
	case 8:
		bf.MatchTxAndUpdate(tx)
	case 9:
		bf.MsgFilterLoad()
	case 10:
		// package-level entry points that take the filter: they must go through its lock as well
		GetMatchedIndices(bchutil.NewBlock(&wire.MsgBlock{Transactions: []*wire.MsgTx{tx.MsgTx()}}), bf)
	case 11:
		NewMerkleBlock(bchutil.NewBlock(&wire.MsgBlock{Transactions: []*wire.MsgTx{tx.MsgTx()}}), bf)
	}
}

// zzNativeTxKind: one output whose script is a bare data push (0), pay-to-pubkey (1) or a bare
// 1-of-1 multisig (2); a saturated filter matches the pushed datum of each.
func zzNativeTxKind(kind int) *bchutil.Tx {
	key := make([]byte, 33)
	key[0] = 2
	key[32] = 7
	var script []byte
	switch kind {
	case 0:
		script = []byte{0x02, 0xab, 0xcd}
	case 1:
		script = append(append([]byte{0x21}, key...), 0xac)
	default:
		script = append(append([]byte{0x51, 0x21}, key...), 0x51, 0xae)
	}
	m := wire.NewMsgTx(1)
	m.AddTxOut(&wire.TxOut{Value: 1, PkScript: script})
	m.AddTxIn(wire.NewTxIn(&wire.OutPoint{Index: 1}, []byte{0x01, 0x07}))
	return bchutil.NewTx(m)
}

// zzNativeTx: a real transaction with one data-push output and one input (native stress only).
func zzNativeTx() *bchutil.Tx {
	m := wire.NewMsgTx(1)
	m.AddTxOut(&wire.TxOut{Value: 1, PkScript: []byte{0x02, 0xab, 0xcd}})
	m.AddTxIn(wire.NewTxIn(&wire.OutPoint{Index: 1}, []byte{0x01, 0x07}))
	return bchutil.NewTx(m)
}
