package bloom

import (
	"encoding/binary"

	"github.com/gcash/bchd/chaincfg/chainhash"
	"github.com/gcash/bchd/wire"
)

// zzFilter: a loaded filter with arbitrary length (1..36000), contents, tweak and flags and a
// concrete (case-split) number of hash functions.
func zzFilter(maxK int) (*Filter, []byte, uint32) {
	buf := vBuf("filter", 1, 36000)
	k := uint32(vCase("hashfuncs", vParam("mink", 0), maxK))
	msg := &wire.MsgFilterLoad{Filter: buf, HashFuncs: k, Tweak: vU32("tweak"), Flags: wire.BloomUpdateType(vU8("flags"))}
	return LoadFilter(msg), buf, k
}

func zzItemLen() int {
	switch vCase("itemlen", 0, 6) {
	case 0:
		return 0
	case 1:
		return 1
	case 2:
		return 2
	case 3:
		return 3
	case 4:
		return 4
	case 5:
		return 32
	}
	return 36
}

// zzRefBit: BIP37 bit number of hash function i for an item.
func zzRefBit(i uint32, tweak uint32, item []byte, nbytes int) uint32 {
	return MurmurHash3(i*0xFBA4C795+tweak, item) % (uint32(nbytes) * 8)
}

// ZZ_C09_insert: after one insertion (arbitrary prior contents) the item is present, bits only
// grow, and the new bit array is exactly old | {BIP37 bits}.
func ZZ_C09_insert() {
	bf, buf, k := zzFilter(vParam("maxk", 50))
	tweak := bf.msgFilterLoad.Tweak
	j := vInt("probe")
	vAssume(j >= 0 && j < len(buf))
	old := buf[j]
	var item []byte
	switch vCase("api", 0, 2) {
	case 0:
		item = vBytes("item", zzItemLen())
		bf.Add(item)
		vAssert("present-after-add", bf.Matches(item))
	case 1:
		var h chainhash.Hash
		copy(h[:], vBytes("hash", 32))
		item = h[:]
		bf.AddHash(&h)
		vAssert("present-after-addhash", bf.Matches(h[:]))
	case 2:
		op := wire.OutPoint{Index: vU32("opindex")}
		copy(op.Hash[:], vBytes("ophash", 32))
		item = make([]byte, 36)
		copy(item, op.Hash[:])
		binary.LittleEndian.PutUint32(item[32:], op.Index)
		bf.AddOutPoint(&op)
		vAssert("present-after-addoutpoint", bf.MatchesOutPoint(&op))
		vAssert("outpoint-serialisation", bf.Matches(item))
	}
	now := buf[j]
	vAssert("bits-only-grow", old&^now == 0)
	want := old
	for i := uint32(0); i < k; i++ {
		bit := zzRefBit(i, tweak, item, len(buf))
		if int(bit>>3) == j {
			want |= 1 << (bit & 7)
		}
	}
	vAssert("bip37-bit-array", now == want)
	vReach("end")
}

// ZZ_C09_query: a membership answer is exactly "all BIP37 bits set".
func ZZ_C09_query() {
	bf, buf, k := zzFilter(vParam("maxk", 50))
	tweak := bf.msgFilterLoad.Tweak
	item := vBytes("item", zzItemLen())
	all := true
	for i := uint32(0); i < k; i++ {
		bit := zzRefBit(i, tweak, item, len(buf))
		all = vAnd(all, buf[bit>>3]&(1<<(bit&7)) != 0)
	}
	vAssert("matches-is-all-bits", bf.Matches(item) == all)
	vReach("end")
}

// ---- MurmurHash3 against an independent transcription of the specification ----------------

func zzRotl(x uint32, r uint) uint32 { return x<<r | x>>(32-r) }

func zzMurmurRef(seed uint32, data []byte) uint32 {
	h := seed
	n := len(data)
	for i := 0; i+4 <= n; i += 4 {
		k := uint32(data[i]) | uint32(data[i+1])<<8 | uint32(data[i+2])<<16 | uint32(data[i+3])<<24
		k *= 0xcc9e2d51
		k = zzRotl(k, 15)
		k *= 0x1b873593
		h ^= k
		h = zzRotl(h, 13)
		h = h*5 + 0xe6546b64
	}
	var k uint32
	tail := n &^ 3
	for t := n - 1; t >= tail; t-- {
		k = k<<8 | uint32(data[t])
	}
	if n&3 != 0 {
		k *= 0xcc9e2d51
		k = zzRotl(k, 15)
		k *= 0x1b873593
		h ^= k
	}
	h ^= uint32(n)
	h ^= h >> 16
	h *= 0x85ebca6b
	h ^= h >> 13
	h *= 0xc2b2ae35
	h ^= h >> 16
	return h
}

func ZZ_C09_murmur() {
	n := vCase("len", 0, vParam("maxlen", 36))
	data := vBytes("data", n)
	seed := vU32("seed")
	vAssert("murmur3-spec", MurmurHash3(seed, data) == zzMurmurRef(seed, data))
	vReach("end")
}

// ZZ_C09_sizing: NewFilter stays within the wire limits for every argument.
func ZZ_C09_sizing() {
	elements := vU32("elements")
	tweak := vU32("tweak")
	fprate := vF64("fprate")
	bf := NewFilter(elements, tweak, fprate, wire.BloomUpdateType(vU8("flags")))
	msg := bf.MsgFilterLoad()
	vAssert("filter-size-limit", len(msg.Filter) <= wire.MaxFilterLoadFilterSize)
	vAssert("hashfuncs-limit", msg.HashFuncs <= wire.MaxFilterLoadHashFuncs)
	vAssert("tweak-kept", msg.Tweak == tweak)
	vReach("end")
}

// ZZ_C09_unloaded: an unloaded filter matches nothing and ignores insertions.
func ZZ_C09_unloaded() {
	bf, _, _ := zzFilter(2)
	bf.Unload()
	item := vBytes("item", 3)
	op := wire.OutPoint{Index: vU32("opindex")}
	var h chainhash.Hash
	bf.Add(item)
	bf.AddHash(&h)
	bf.AddOutPoint(&op)
	vAssert("unloaded-not-loaded", !bf.IsLoaded())
	vAssert("unloaded-matches-nothing", !bf.Matches(item) && !bf.MatchesOutPoint(&op))
	vAssert("unloaded-msg-nil", bf.MsgFilterLoad() == nil)
	vReach("end")
}

// ZZ_C09_reload: after Reload (also after Unload) the filter behaves exactly like a filter
// freshly loaded with the new message - sizes of the old and the new filter are independent.
func ZZ_C09_reload() {
	old := vBuf("oldfilter", 1, 36000)
	bf := LoadFilter(&wire.MsgFilterLoad{Filter: old, HashFuncs: uint32(vCase("oldk", 0, 2)), Tweak: vU32("oldtweak")})
	if vCase("unloadfirst", 0, 1) == 1 {
		bf.Unload()
		vAssert("unloaded", !bf.IsLoaded())
	}
	buf := vBuf("filter", 1, 36000)
	k := uint32(vCase("hashfuncs", 0, vParam("maxk", 2)))
	tweak := vU32("tweak")
	bf.Reload(&wire.MsgFilterLoad{Filter: buf, HashFuncs: k, Tweak: tweak})
	vAssert("loaded", bf.IsLoaded())
	j := vInt("probe")
	vAssume(j >= 0 && j < len(buf))
	before := buf[j]
	item := vBytes("item", zzItemLen())
	bf.Add(item)
	vAssert("present-after-reload-add", bf.Matches(item))
	want := before
	for i := uint32(0); i < k; i++ {
		bit := zzRefBit(i, tweak, item, len(buf))
		if int(bit>>3) == j {
			want |= 1 << (bit & 7)
		}
	}
	vAssert("bip37-bit-array-after-reload", buf[j] == want)
	vReach("end")
}
