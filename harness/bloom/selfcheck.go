package bloom

// ZZ_selfcheck_bloom: MurmurHash3 test vectors (the ones Bitcoin Core uses), executed concretely.
func ZZ_selfcheck_bloom() {
	vAssert("selfcheck:murmur-1", MurmurHash3(0x00000000, []byte{}) == 0x00000000)
	vAssert("selfcheck:murmur-2", MurmurHash3(0xFBA4C795, []byte{}) == 0x6a396f08)
	vAssert("selfcheck:murmur-3", MurmurHash3(0x00000000, []byte{0x00}) == 0x514e28b7)
	vAssert("selfcheck:murmur-4", MurmurHash3(0x00000000, []byte{0x00, 0x11, 0x22, 0x33, 0x44, 0x55, 0x66, 0x77, 0x88}) == 0xb4698def)
	vAssert("selfcheck:murmur-ref", zzMurmurRef(0x00000000, []byte{0x00, 0x11, 0x22, 0x33, 0x44, 0x55, 0x66, 0x77, 0x88}) == 0xb4698def)
	vReach("end")
}
