package bloom

import (
	"github.com/gcash/bchd/chaincfg/chainhash"
	"github.com/gcash/bchd/wire"
	"github.com/gcash/bchutil"
)

// ---- ideal-set model of the filter for block scans ------------------------------------------
// A transaction i is relevant by itself (zzRel[i]); its output k matches (zzOut[i][k]) and, when
// it matches, its outpoint is added to the filter according to the update flag and script class.
// The filter "contains" exactly the outpoints added so far (no false positives).

var zzRel [4]bool
var zzOut [4][2]bool
var zzPub [4][2]bool
var zzAdded [4][2]bool // ghost: outpoints inserted so far
var zzSpend [4][2][2]int // tx i, input m -> (tx j or -1, output k)
var zzNIn [4]int
var zzIdealFlags wire.BloomUpdateType

func zzIdealHash(tag int) chainhash.Hash {
	var h chainhash.Hash
	h[0] = byte(tag + 1)
	h[31] = 0x77
	return h
}

func zzStubIdealTxHash(tx *wire.MsgTx) chainhash.Hash { return zzIdealHash(int(tx.Version & 3)) }

func zzStubIdealMatch(f *Filter, tx *bchutil.Tx) bool {
	i := int(tx.MsgTx().Version & 3)
	matched := zzRel[i]
	for k := 0; k < 2; k++ {
		if zzOut[i][k] {
			matched = true
			switch zzIdealFlags {
			case wire.BloomUpdateAll:
				zzAdded[i][k] = true
			case wire.BloomUpdateP2PubkeyOnly:
				if zzPub[i][k] {
					zzAdded[i][k] = true
				}
			}
		}
	}
	if matched {
		return true
	}
	for m := 0; m < zzNIn[i]; m++ {
		j, k := zzSpend[i][m][0], zzSpend[i][m][1]
		if j >= 0 && zzAdded[j][k] {
			return true
		}
	}
	return false
}

// ZZ_C10_block: GetMatchedIndices on every small block with an arbitrary intra-block spend graph
// in any order (a spender may come before or after the transaction it spends).
func ZZ_C10_block() {
	n := vCase("ntx", 1, vParam("maxtx", 3))
	switch vCase("flags", 0, 2) {
	case 0:
		zzIdealFlags = wire.BloomUpdateNone
	case 1:
		zzIdealFlags = wire.BloomUpdateAll
	case 2:
		zzIdealFlags = wire.BloomUpdateP2PubkeyOnly
	}
	mb := &wire.MsgBlock{}
	for i := 0; i < n; i++ {
		zzRel[i] = vBool("relevant")
		tx := &wire.MsgTx{Version: int32(i)}
		for k := 0; k < 2; k++ {
			zzOut[i][k] = vBool("outmatch")
			zzPub[i][k] = vBool("ispubkey")
			zzAdded[i][k] = false
			tx.TxOut = append(tx.TxOut, &wire.TxOut{})
		}
		zzNIn[i] = vCase("nin", 0, vParam("maxin", 1))
		for m := 0; m < zzNIn[i]; m++ {
			// a transaction can only spend transactions created before it (smaller tag): the spend
			// graph is acyclic, as transaction ids make it. The ORDER in the block is separate.
			j := vCase("spends", -1, i-1) // -1: an outpoint outside the block
			k := vCase("spendsout", 0, 1)
			zzSpend[i][m] = [2]int{j, k}
			in := &wire.TxIn{}
			if j >= 0 {
				in.PreviousOutPoint = wire.OutPoint{Hash: zzIdealHash(j), Index: uint32(k)}
			} else {
				in.PreviousOutPoint.Hash[5] = 0xee
			}
			tx.TxIn = append(tx.TxIn, in)
		}
		mb.Transactions = append(mb.Transactions, tx)
	}
	// any order of the transactions in the block (topological, reversed, ...)
	switch n {
	case 2:
		if vCase("order", 0, 1) == 1 {
			mb.Transactions[0], mb.Transactions[1] = mb.Transactions[1], mb.Transactions[0]
		}
	case 3:
		perms := [6][3]int{{0, 1, 2}, {0, 2, 1}, {1, 0, 2}, {1, 2, 0}, {2, 0, 1}, {2, 1, 0}}
		p := perms[vCase("order", 0, 5)]
		t := []*wire.MsgTx{mb.Transactions[p[0]], mb.Transactions[p[1]], mb.Transactions[p[2]]}
		mb.Transactions = t
	}
	pos := map[int]int{}
	for at, tx := range mb.Transactions {
		pos[int(tx.Version)] = at
	}
	block := bchutil.NewBlock(mb)
	f := LoadFilter(&wire.MsgFilterLoad{Filter: []byte{0}, HashFuncs: 1, Flags: zzIdealFlags})
	got := GetMatchedIndices(block, f)
	// expected: relevant by itself, a matching output, or spending an outpoint that is added
	// (by any transaction of the block, wherever it stands)
	for i := 0; i < n; i++ {
		want := zzRel[i] || zzOut[i][0] || zzOut[i][1]
		for m := 0; m < zzNIn[i]; m++ {
			j, k := zzSpend[i][m][0], zzSpend[i][m][1]
			if j >= 0 && zzOut[j][k] {
				switch zzIdealFlags {
				case wire.BloomUpdateAll:
					want = true
				case wire.BloomUpdateP2PubkeyOnly:
					if zzPub[j][k] {
						want = true
					}
				}
			}
		}
		vAssert("reported-iff-relevant", got[pos[i]] == want)
	}
	vAssert("no-extra-indices", len(got) <= n)
	vReach("end")
}
