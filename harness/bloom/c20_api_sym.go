package bloom

func vWatch(mu interface{}, p interface{})
func vHeld(mu interface{}) bool
