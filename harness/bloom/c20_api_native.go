package bloom

import "sync"

func vWatch(mu *sync.Mutex, p interface{}) {}
func vHeld(mu *sync.Mutex) bool {
	if mu.TryLock() {
		mu.Unlock()
		return false
	}
	return true
}
