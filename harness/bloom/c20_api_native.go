package bloom

import "sync"

func vWatch(mu interface{}, p interface{}) {}
func vHeld(mu interface{}) bool {
	switch m := mu.(type) {
	case *sync.Mutex:
		if m.TryLock() {
			m.Unlock()
			return false
		}
		return true
	case *sync.RWMutex:
		if m.TryLock() {
			m.Unlock()
			return false
		}
		return true
	}
	return false
}
