package sym

import (
	"fmt"
	"math/big"
	"math/bits"
	"go/token"
	"go/types"
	"math"

	"golang.org/x/tools/go/ssa"

	"verif/engine/smt"
)

func (e *Exec) binop(op token.Token, x, y Value, xt, yt types.Type) Value {
	switch a := x.(type) {
	case *smt.Term:
		b, ok := y.(*smt.Term)
		if !ok {
			if op2, isOp := y.(*Opaque); isOp {
				if e.tolerant {
					return op2
				}
				e.unsupported("binop with opaque (%s)", op2.Why)
			}
			e.unsupported("binop %v term with %T", op, y)
		}
		return e.binopTerm(op, a, b, xt, yt)
	case *Str:
		b, ok := y.(*Str)
		if !ok {
			e.unsupported("string binop with %T", y)
		}
		return e.binopStr(op, a, b)
	case *Pointer:
		b, ok := y.(*Pointer)
		if !ok {
			e.unsupported("pointer binop with %T", y)
		}
		eq := ptrEq(a, b)
		if eq == nil {
			e.unsupported("comparison of symbolic pointers")
		}
		return cmpRes(op, eq, e)
	case *Iface:
		b, ok := y.(*Iface)
		if !ok {
			e.unsupported("iface binop with %T", y)
		}
		return cmpRes(op, e.ifaceEq(a, b), e)
	case *Agg:
		b, ok := y.(*Agg)
		if !ok {
			e.unsupported("agg binop with %T", y)
		}
		return cmpRes(op, e.valueEq(a, b), e)
	case *Slice:
		// only comparison with nil
		b, ok := y.(*Slice)
		if ok && (b.Nil && b.Back == nil) {
			return cmpRes(op, smt.BoolC(a.Nil), e)
		}
		if ok && (a.Nil && a.Back == nil) {
			return cmpRes(op, smt.BoolC(b.Nil), e)
		}
	case *Map:
		b, ok := y.(*Map)
		if ok && b.M == nil {
			return cmpRes(op, smt.BoolC(a.M == nil), e)
		}
		if ok && a.M == nil {
			return cmpRes(op, smt.BoolC(b.M == nil), e)
		}
	case *Closure:
		b, ok := y.(*Closure)
		if ok && b.Fn == nil && b.Bi == nil {
			return cmpRes(op, smt.BoolC(a.Fn == nil && a.Bi == nil), e)
		}
		if ok && a.Fn == nil && a.Bi == nil {
			return cmpRes(op, smt.BoolC(b.Fn == nil && b.Bi == nil), e)
		}
	case *Opaque:
		if e.tolerant {
			return a
		}
		e.unsupported("binop on opaque (%s)", a.Why)
	}
	e.unsupported("binop %v on %T,%T", op, x, y)
	return nil
}

func cmpRes(op token.Token, eq *smt.Term, e *Exec) Value {
	switch op {
	case token.EQL:
		return eq
	case token.NEQ:
		return smt.Not(eq)
	}
	e.unsupported("operator %v on non-ordered values", op)
	return nil
}

func ptrEq(a, b *Pointer) *smt.Term {
	if a.Arr != nil || b.Arr != nil || a.Buf != nil || b.Buf != nil {
		if isNilPtr(a) || isNilPtr(b) {
			return smt.False
		}
		return nil
	}
	return smt.BoolC(a.C == b.C)
}

func (e *Exec) ifaceEq(a, b *Iface) *smt.Term {
	if a.T == nil || b.T == nil {
		return smt.BoolC(a.T == nil && b.T == nil)
	}
	if !types.Identical(a.T, b.T) {
		return smt.False
	}
	return e.valueEq(a.V, b.V)
}

func (e *Exec) valueEq(x, y Value) *smt.Term {
	switch a := x.(type) {
	case *smt.Term:
		b := y.(*smt.Term)
		if a.Sort.K == smt.KFP {
			return smt.Fp(smt.OFpEq, smt.Bool, a, b)
		}
		return eqMixed(a, b)
	case *Str:
		return strEq(a, y.(*Str))
	case *Pointer:
		r := ptrEq(a, y.(*Pointer))
		if r == nil {
			e.unsupported("symbolic pointer equality")
		}
		return r
	case *Iface:
		return e.ifaceEq(a, y.(*Iface))
	case *Agg:
		b := y.(*Agg)
		var cs []*smt.Term
		for i := range a.E {
			cs = append(cs, e.valueEq(a.E[i], b.E[i]))
		}
		return smt.And(cs...)
	}
	e.unsupported("equality on %T", x)
	return nil
}

func strEq(a, b *Str) *smt.Term {
	if len(a.B) != len(b.B) {
		return smt.False
	}
	cs := make([]*smt.Term, len(a.B))
	for i := range a.B {
		cs[i] = eqMixed(a.B[i], b.B[i])
	}
	return smt.And(cs...)
}

// eqMixed: equality where one side may be an Int-mode value and the other a BV constant.
func eqMixed(a, b *smt.Term) *smt.Term {
	if a.Sort == b.Sort {
		return smt.Eq(a, b)
	}
	toInt := func(t *smt.Term) *smt.Term {
		if t.Sort.K == smt.KInt {
			return t
		}
		if c, ok := t.ConstU(); ok {
			return smt.IntBig(new(big.Int).SetUint64(c))
		}
		panic(inconclusive{"comparison of an Int-mode value with a symbolic bit-vector"})
	}
	return smt.Eq(toInt(a), toInt(b))
}

// lexLess: a < b lexicographically over byte terms.
func lexLess(a, b []*smt.Term, orEqual bool) *smt.Term {
	n := len(a)
	if len(b) < n {
		n = len(b)
	}
	// tail: all of common prefix equal
	var res *smt.Term
	if len(a) < len(b) {
		res = smt.True
	} else if len(a) == len(b) {
		res = smt.BoolC(orEqual)
	} else {
		res = smt.False
	}
	for i := n - 1; i >= 0; i-- {
		res = smt.Ite(smt.Eq(a[i], b[i]), res, smt.BvCmp(smt.OBvUlt, a[i], b[i]))
	}
	return res
}

func (e *Exec) binopStr(op token.Token, a, b *Str) Value {
	switch op {
	case token.ADD:
		r := &Str{B: make([]*smt.Term, 0, len(a.B)+len(b.B))}
		r.B = append(r.B, a.B...)
		r.B = append(r.B, b.B...)
		return r
	case token.EQL:
		return strEq(a, b)
	case token.NEQ:
		return smt.Not(strEq(a, b))
	case token.LSS:
		return lexLess(a.B, b.B, false)
	case token.LEQ:
		return lexLess(a.B, b.B, true)
	case token.GTR:
		return lexLess(b.B, a.B, false)
	case token.GEQ:
		return lexLess(b.B, a.B, true)
	}
	e.unsupported("string op %v", op)
	return nil
}

func (e *Exec) binopTerm(op token.Token, a, b *smt.Term, xt, yt types.Type) Value {
	if a.Sort.K == smt.KBV && b.Sort.K == smt.KInt {
		// Int-mode value on the right: bring the constant on the left into Int mode
		if _, ok := a.ConstU(); ok {
			_, signed, _ := intWidth(xt)
			if signed {
				v, _ := a.ConstS()
				a = smt.IntC(v)
			} else {
				u, _ := a.ConstU()
				a = smt.IntBig(new(big.Int).SetUint64(u))
			}
		} else {
			e.unsupported("mixed bv/int operands")
		}
	}
	switch a.Sort.K {
	case smt.KBool:
		switch op {
		case token.EQL:
			return smt.Eq(a, b)
		case token.NEQ:
			return smt.Not(smt.Eq(a, b))
		case token.AND, token.LAND:
			return smt.And(a, b)
		case token.OR, token.LOR:
			return smt.Or(a, b)
		}
	case smt.KFP:
		if a.IsConst() && b.IsConst() {
			x, y := math.Float64frombits(a.Val), math.Float64frombits(b.Val)
			switch op {
			case token.ADD:
				return smt.FPC(math.Float64bits(x + y))
			case token.SUB:
				return smt.FPC(math.Float64bits(x - y))
			case token.MUL:
				return smt.FPC(math.Float64bits(x * y))
			case token.QUO:
				return smt.FPC(math.Float64bits(x / y))
			case token.LSS:
				return smt.BoolC(x < y)
			case token.LEQ:
				return smt.BoolC(x <= y)
			case token.GTR:
				return smt.BoolC(x > y)
			case token.GEQ:
				return smt.BoolC(x >= y)
			case token.EQL:
				return smt.BoolC(x == y)
			case token.NEQ:
				return smt.BoolC(x != y)
			}
		}
		if op == token.QUO && e.Cfg.RelaxFDiv && b.IsConst() {
			return e.relaxedDiv(a, b)
		}
		switch op {
		case token.ADD:
			return smt.Fp(smt.OFpAdd, smt.FP64, a, b)
		case token.SUB:
			return smt.Fp(smt.OFpSub, smt.FP64, a, b)
		case token.MUL:
			return smt.Fp(smt.OFpMul, smt.FP64, a, b)
		case token.QUO:
			return smt.Fp(smt.OFpDiv, smt.FP64, a, b)
		case token.LSS:
			return smt.Fp(smt.OFpLt, smt.Bool, a, b)
		case token.LEQ:
			return smt.Fp(smt.OFpLe, smt.Bool, a, b)
		case token.GTR:
			return smt.Fp(smt.OFpLt, smt.Bool, b, a)
		case token.GEQ:
			return smt.Fp(smt.OFpLe, smt.Bool, b, a)
		case token.EQL:
			return smt.Fp(smt.OFpEq, smt.Bool, a, b)
		case token.NEQ:
			return smt.Not(smt.Fp(smt.OFpEq, smt.Bool, a, b))
		}
	case smt.KInt:
		return e.binopInt(op, a, b, xt)
	case smt.KBV:
		if b.Sort.K == smt.KInt {
			e.unsupported("mixed bv/int operands")
		}
		_, signed, _ := intWidth(xt)
		w := a.Sort.W
		if op == token.SHL || op == token.SHR {
			// shift count may have another width and is unsigned (or non-negative)
			cnt := b
			_, csigned, _ := intWidth(yt)
			if csigned {
				e.panicCheck("negative shift amount", smt.Not(smt.BvCmp(smt.OBvSlt, cnt, smt.BVC(cnt.Sort.W, 0))))
			}
			if cnt.Sort.W > w {
				big := smt.BvCmp(smt.OBvUle, smt.BVC(cnt.Sort.W, uint64(w)), cnt)
				cnt = smt.Ite(big, smt.BVC(w, uint64(w)), smt.Extract(cnt, w-1, 0))
			} else if cnt.Sort.W < w {
				cnt = smt.ZExt(cnt, w)
			}
			if op == token.SHL {
				return smt.BvBin(smt.OBvShl, a, cnt)
			}
			if signed {
				return smt.BvBin(smt.OBvAshr, a, cnt)
			}
			return smt.BvBin(smt.OBvLshr, a, cnt)
		}
		if a.Sort != b.Sort {
			e.unsupported("binop %v width mismatch %v %v", op, a.Sort, b.Sort)
		}
		switch op {
		case token.ADD:
			return smt.BvBin(smt.OBvAdd, a, b)
		case token.SUB:
			return smt.BvBin(smt.OBvSub, a, b)
		case token.MUL:
			if w == 64 && e.Cfg.UFMul && !a.IsConst() && !b.IsConst() {
				// commutative by construction: arguments in a canonical order
				if smt.StructHash(a) > smt.StructHash(b) {
					a, b = b, a
				}
				m := smt.App("M64", smt.BV(64), a, b)
				// range lemma: the product of two bounded factors is bounded (no wrap-around)
				ua, ub := smt.UMax(a), smt.UMax(b)
				if hi, lo := bits.Mul64(ua, ub); hi == 0 {
					e.pc = append(e.pc, smt.BvCmp(smt.OBvUle, m, smt.BVC(64, lo)))
				}
				return m
			}
			return smt.BvBin(smt.OBvMul, a, b)
		case token.QUO:
			e.panicCheck("integer divide by zero", smt.Not(smt.Eq(b, smt.BVC(w, 0))))
			if signed {
				return smt.BvBin(smt.OBvSDiv, a, b)
			}
			return smt.BvBin(smt.OBvUDiv, a, b)
		case token.REM:
			e.panicCheck("integer divide by zero", smt.Not(smt.Eq(b, smt.BVC(w, 0))))
			if signed {
				return smt.BvBin(smt.OBvSRem, a, b)
			}
			if e.Cfg.UFRem && !b.IsConst() {
				// x % m abstracted: uninterpreted, constrained only by 0 <= r < m
				r := smt.App(fmt.Sprintf("urem%d", w), smt.BV(w), a, b)
				e.pc = append(e.pc, smt.Implies(smt.Not(smt.Eq(b, smt.BVC(w, 0))), smt.BvCmp(smt.OBvUlt, r, b)))
				return r
			}
			return smt.BvBin(smt.OBvURem, a, b)
		case token.AND:
			return smt.BvBin(smt.OBvAnd, a, b)
		case token.OR:
			return smt.BvBin(smt.OBvOr, a, b)
		case token.XOR:
			return smt.BvBin(smt.OBvXor, a, b)
		case token.AND_NOT:
			return smt.BvBin(smt.OBvAnd, a, smt.BvNot(b))
		case token.EQL:
			return smt.Eq(a, b)
		case token.NEQ:
			return smt.Not(smt.Eq(a, b))
		case token.LSS:
			if signed {
				return smt.BvCmp(smt.OBvSlt, a, b)
			}
			return smt.BvCmp(smt.OBvUlt, a, b)
		case token.LEQ:
			if signed {
				return smt.BvCmp(smt.OBvSle, a, b)
			}
			return smt.BvCmp(smt.OBvUle, a, b)
		case token.GTR:
			if signed {
				return smt.BvCmp(smt.OBvSlt, b, a)
			}
			return smt.BvCmp(smt.OBvUlt, b, a)
		case token.GEQ:
			if signed {
				return smt.BvCmp(smt.OBvSle, b, a)
			}
			return smt.BvCmp(smt.OBvUle, b, a)
		}
	}
	e.unsupported("binop %v on sort %v", op, a.Sort)
	return nil
}

// binopInt: operands in Int mode (Go machine integers modelled as mathematical integers;
// only operations that cannot wrap for the declared ranges are supported).
func (e *Exec) binopInt(op token.Token, a, b *smt.Term, xt types.Type) Value {
	if b.Sort.K != smt.KInt {
		if v, ok := b.ConstS(); ok {
			_, signed, _ := intWidth(xt)
			if !signed {
				u, _ := b.ConstU()
				b = smt.IntBig(bigFromTerm(smt.BVC(64, u)))
			} else {
				b = smt.IntC(v)
			}
		} else {
			e.unsupported("mixed int/bv operands")
		}
	}
	switch op {
	case token.EQL:
		return smt.Eq(a, b)
	case token.NEQ:
		return smt.Not(smt.Eq(a, b))
	case token.LSS:
		return smt.IntCmp(smt.OIntLt, a, b)
	case token.LEQ:
		return smt.IntCmp(smt.OIntLe, a, b)
	case token.GTR:
		return smt.IntCmp(smt.OIntLt, b, a)
	case token.GEQ:
		return smt.IntCmp(smt.OIntLe, b, a)
	}
	e.unsupported("Int-mode operator %v", op)
	return nil
}

func (e *Exec) convert(v Value, from, to types.Type) Value {
	if op, ok := v.(*Opaque); ok {
		return op
	}
	fu, tu := from.Underlying(), to.Underlying()
	// string conversions
	if isString(to) {
		switch x := v.(type) {
		case *Str:
			return x
		case *Slice: // []byte -> string
			if x.Buf != nil {
				e.unsupported("string(symbolic buffer)")
			}
			s := &Str{B: make([]*smt.Term, x.Len)}
			for i := 0; i < x.Len; i++ {
				t, ok := e.load(x.Back[x.Off+i]).(*smt.Term)
				if !ok {
					e.unsupported("string([]T) of non-byte slice")
				}
				if t.Sort.K != smt.KInt && t.Sort.W != 8 {
					e.unsupported("string([]rune)")
				}
				s.B[i] = t
			}
			return s
		case *smt.Term: // rune/byte -> string
			if x.Sort.K != smt.KBV {
				e.unsupported("string(int-mode value)")
			}
			if smt.UMax(x) < 0x80 {
				return &Str{B: []*smt.Term{smt.Extract(x, 7, 0)}}
			}
			// the value may be >= 0x80: multi-byte UTF-8. Check if possible.
			w := x.Sort.W
			small := smt.BvCmp(smt.OBvUlt, x, smt.BVC(w, 0x80))
			if c, ok := x.ConstU(); ok {
				return strConst(string(rune(c)))
			}
			if e.feasibleStrict(smt.Not(small)) {
				e.unsupported("string(rune) with non-ASCII value")
			}
			return &Str{B: []*smt.Term{smt.Extract(x, 7, 0)}}
		}
	}
	if isString(from) {
		if sl, ok := tu.(*types.Slice); ok {
			s := v.(*Str)
			if b, ok := sl.Elem().Underlying().(*types.Basic); ok && b.Kind() == types.Uint8 {
				return &Slice{Back: newCells(len(s.B), func(i int) Value { return s.B[i] }), Len: len(s.B), Cap: len(s.B)}
			}
			e.unsupported("[]rune(string)")
		}
	}
	t, ok := v.(*smt.Term)
	if !ok {
		// pointer <-> unsafe.Pointer, same-representation conversions
		return v
	}
	fw, fsigned, fok := intWidth(from)
	tw, tsigned, tok := intWidth(to)
	_ = fu
	switch {
	case fok && tok:
		if t.Sort.K == smt.KInt {
			return t // Int mode: value preserved (ranges are the harness's responsibility)
		}
		if tw == fw {
			return t
		}
		if tw < fw {
			return smt.Extract(t, tw-1, 0)
		}
		if fsigned {
			return smt.SExt(t, tw)
		}
		return smt.ZExt(t, tw)
	case fok && isFloat(to):
		if t.Sort.K != smt.KBV {
			e.unsupported("int-mode to float")
		}
		if c, ok := t.ConstU(); ok {
			if fsigned {
				return smt.FPC(math.Float64bits(float64(signExtend(c, fw))))
			}
			return smt.FPC(math.Float64bits(float64(c)))
		}
		if fsigned {
			return smt.Fp(smt.OFpFromSBV, smt.FP64, t)
		}
		return smt.Fp(smt.OFpFromUBV, smt.FP64, t)
	case isFloat(from) && tok:
		if t.IsConst() {
			f := math.Float64frombits(t.Val)
			if tsigned {
				return smt.BVC(tw, uint64(int64(f)))
			}
			return smt.BVC(tw, uint64(f))
		}
		// in range: RTZ. Out of range / NaN: implementation-defined -> fresh value.
		var conv *smt.Term
		if tsigned {
			conv = smt.Fp(smt.OFpToSBV, smt.BV(tw), t)
		} else {
			conv = smt.Fp(smt.OFpToUBV, smt.BV(tw), t)
		}
		var lo, hi float64
		if tsigned {
			lo, hi = -math.Ldexp(1, tw-1), math.Ldexp(1, tw-1)
		} else {
			lo, hi = 0, math.Ldexp(1, tw)
		}
		tr := smt.Fp(smt.OFpRoundRTZ, smt.FP64, t)
		in := smt.And(smt.Fp(smt.OFpLe, smt.Bool, smt.FPC(math.Float64bits(lo)), tr), smt.Fp(smt.OFpLt, smt.Bool, tr, smt.FPC(math.Float64bits(hi))))
		e.fresh++
		fv := smt.Var(fmt.Sprintf("f2i_undef_%d", e.fresh), smt.BV(tw))
		return smt.Ite(in, conv, fv)
	case isFloat(from) && isFloat(to):
		fb := fu.(*types.Basic)
		tb := tu.(*types.Basic)
		if fb.Kind() == tb.Kind() || tb.Kind() == types.Float64 {
			return t
		}
		e.unsupported("float64->float32 conversion")
	case isBool(from) && isBool(to):
		return t
	}
	e.unsupported("convert %v -> %v", from, to)
	return nil
}

func signExtend(v uint64, w int) int64 {
	if w >= 64 {
		return int64(v)
	}
	sh := uint(64 - w)
	return int64(v<<sh) >> sh
}

// ---- builtins -------------------------------------------------------------------------

func (e *Exec) builtin(fr *Frame, b *ssa.Builtin, args []Value, cc *ssa.CallCommon) Value {
	switch b.Name() {
	case "len":
		switch x := args[0].(type) {
		case *Slice:
			if x.Buf != nil {
				return x.Buf.Len
			}
			return smt.BVC(64, uint64(x.Len))
		case *Str:
			return smt.BVC(64, uint64(len(x.B)))
		case *Map:
			if x.M == nil {
				return smt.BVC(64, 0)
			}
			// keys are pairwise distinct under the path condition: mapUpdate appends a key only
			// after forking on its equality with every existing key
			m := e.mapRead(x.M)
			return smt.BVC(64, uint64(len(m.Keys)))
		case *Pointer:
			if x.C != nil && x.C.Sub != nil {
				return smt.BVC(64, uint64(len(x.C.Sub)))
			}
			// len(*[N]T) with nil pointer is still N
			if pt, ok := cc.Args[0].Type().Underlying().(*types.Pointer); ok {
				if at, ok := pt.Elem().Underlying().(*types.Array); ok {
					return smt.BVC(64, uint64(at.Len()))
				}
			}
		case *Agg:
			return smt.BVC(64, uint64(len(x.E)))
		case *Opaque:
			if e.tolerant {
				return x
			}
		}
		e.unsupported("len of %T", args[0])
	case "cap":
		switch x := args[0].(type) {
		case *Slice:
			if x.Buf != nil {
				return x.Buf.Len
			}
			return smt.BVC(64, uint64(x.Cap))
		case *Agg:
			return smt.BVC(64, uint64(len(x.E)))
		}
		e.unsupported("cap of %T", args[0])
	case "append":
		return e.appendOp(args[0], args[1], cc)
	case "copy":
		return e.copyOp(args[0], args[1])
	case "delete":
		e.mapDelete(args[0], args[1])
		return nil
	case "print", "println":
		return nil
	case "recover":
		if e.ghost != nil {
			if v, ok := e.ghost["panicking"]; ok && v != nil {
				e.ghost["panicking"] = nil
				return v
			}
		}
		return &Iface{}
	case "ssa:wrapnilchk":
		if p, ok := args[0].(*Pointer); ok && isNilPtr(p) {
			e.raisePanic("value method called using nil pointer")
		}
		return args[0]
	case "min", "max":
		r := args[0]
		for _, a := range args[1:] {
			t := cc.Args[0].Type()
			var less Value
			if b.Name() == "min" {
				less = e.binop(token.LSS, a, r, t, t)
			} else {
				less = e.binop(token.GTR, a, r, t, t)
			}
			lt := less.(*smt.Term)
			r = smt.Ite(lt, a.(*smt.Term), r.(*smt.Term))
		}
		return r
	case "clear":
		switch x := args[0].(type) {
		case *Map:
			if x.M != nil {
				m := e.mapWrite(x)
				m.Keys, m.Vals = nil, nil
			}
			return nil
		case *Slice:
			et := cc.Args[0].Type().Underlying().(*types.Slice).Elem()
			for i := 0; i < x.Len; i++ {
				e.store(x.Back[x.Off+i], zeroValue(et))
			}
			return nil
		}
	}
	e.unsupported("builtin %s", b.Name())
	return nil
}

func (e *Exec) appendOp(dst, src Value, cc *ssa.CallCommon) Value {
	d, ok := dst.(*Slice)
	if !ok {
		if op, isOp := dst.(*Opaque); isOp && e.tolerant {
			return op
		}
		e.unsupported("append to %T", dst)
	}
	if d.Buf != nil {
		e.unsupported("append to symbolic buffer")
	}
	var add []Value
	switch s := src.(type) {
	case *Slice:
		if s.Buf != nil {
			e.unsupported("append of symbolic buffer")
		}
		for i := 0; i < s.Len; i++ {
			add = append(add, e.load(s.Back[s.Off+i]))
		}
	case *Str:
		for _, t := range s.B {
			add = append(add, t)
		}
	case *Opaque:
		if e.tolerant {
			return s
		}
		e.unsupported("append of opaque")
	default:
		e.unsupported("append of %T", src)
	}
	if len(add) == 0 {
		return d
	}
	if e.guarded() {
		e.unsupported("append under merge guard")
	}
	n := d.Len + len(add)
	if n <= d.Cap {
		for i, v := range add {
			e.store(d.Back[d.Off+d.Len+i], v)
		}
		return &Slice{Back: d.Back, Off: d.Off, Len: n, Cap: d.Cap}
	}
	// grow: new backing array. Capacity: Go's growth is implementation-defined; we give
	// exactly-fitting capacity rounded up a little so that aliasing after growth is never assumed.
	ncap := n
	if d.Cap*2 > ncap {
		ncap = d.Cap * 2
	}
	et := cc.Args[0].Type().Underlying().(*types.Slice).Elem()
	back := make([]*Cell, ncap)
	for i := 0; i < d.Len; i++ {
		back[i] = newCell(e.load(d.Back[d.Off+i]))
	}
	for i, v := range add {
		back[d.Len+i] = newCell(v)
	}
	for i := n; i < ncap; i++ {
		back[i] = newCell(zeroValue(et))
	}
	return &Slice{Back: back, Off: 0, Len: n, Cap: ncap}
}

func (e *Exec) copyOp(dst, src Value) Value {
	d, ok := dst.(*Slice)
	if !ok {
		e.unsupported("copy to %T", dst)
	}
	if d.Buf != nil {
		e.unsupported("copy to symbolic buffer")
	}
	var vals []Value
	switch s := src.(type) {
	case *Slice:
		if s.Buf != nil {
			e.unsupported("copy from symbolic buffer")
		}
		n := s.Len
		if d.Len < n {
			n = d.Len
		}
		for i := 0; i < n; i++ {
			vals = append(vals, e.load(s.Back[s.Off+i]))
		}
	case *Str:
		n := len(s.B)
		if d.Len < n {
			n = d.Len
		}
		for i := 0; i < n; i++ {
			vals = append(vals, s.B[i])
		}
	default:
		e.unsupported("copy from %T", src)
	}
	for i, v := range vals {
		e.store(d.Back[d.Off+i], v)
	}
	return smt.BVC(64, uint64(len(vals)))
}

// ---- maps ---------------------------------------------------------------------------------

func (e *Exec) mapRead(m *MapObj) *MapObj {
	if m.base && e.mapOvl != nil {
		if o, ok := e.mapOvl[m]; ok {
			return o
		}
	}
	return m
}

func (e *Exec) mapWrite(mv *Map) *MapObj {
	m := mv.M
	if m.base && !e.tolerant {
		if e.mapOvl == nil {
			e.mapOvl = map[*MapObj]*MapObj{}
		}
		if o, ok := e.mapOvl[m]; ok {
			return o
		}
		o := &MapObj{Keys: append([]Value(nil), m.Keys...), Vals: append([]Value(nil), m.Vals...)}
		e.mapOvl[m] = o
		return o
	}
	return m
}

func (e *Exec) mapUpdate(mv, k, v Value) {
	m, ok := mv.(*Map)
	if !ok {
		if _, isOp := mv.(*Opaque); isOp && e.tolerant {
			return
		}
		e.unsupported("map update on %T", mv)
	}
	if m.M == nil {
		e.raisePanic("assignment to entry in nil map")
	}
	if e.guarded() {
		e.unsupported("map update under merge guard")
	}
	mo := e.mapWrite(m)
	// existing key?
	for i, ek := range mo.Keys {
		eq := e.valueEq(ek, k)
		if eq.IsTrue() {
			mo.Vals[i] = v
			return
		}
		if !eq.IsFalse() {
			// symbolic: fork on equality
			if e.forkBool(eq) {
				mo.Vals[i] = v
				return
			}
		}
	}
	mo.Keys = append(mo.Keys, k)
	mo.Vals = append(mo.Vals, v)
}

func (e *Exec) mapDelete(mv, k Value) {
	m := mv.(*Map)
	if m.M == nil {
		return
	}
	mo := e.mapWrite(m)
	for i, ek := range mo.Keys {
		eq := e.valueEq(ek, k)
		if eq.IsFalse() {
			continue
		}
		if eq.IsTrue() || e.forkBool(eq) {
			mo.Keys = append(append([]Value(nil), mo.Keys[:i]...), mo.Keys[i+1:]...)
			mo.Vals = append(append([]Value(nil), mo.Vals[:i]...), mo.Vals[i+1:]...)
			return
		}
	}
}

func (e *Exec) lookup(fr *Frame, x *ssa.Lookup) Value {
	cv := e.get(fr, x.X)
	k := e.get(fr, x.Index)
	switch m := cv.(type) {
	case *Str:
		idx := e.toIdx64(k.(*smt.Term), x.Index.Type())
		vals := make([]Value, len(m.B))
		for i, t := range m.B {
			vals[i] = t
		}
		return e.indexVals(vals, idx)
	case *Map:
		vt := x.X.Type().Underlying().(*types.Map).Elem()
		zero := zeroValue(vt)
		var found *smt.Term = smt.False
		res := zero
		if m.M != nil {
			mo := e.mapRead(m.M)
			// scalar-valued maps merge; others fork
			_, scalar := zero.(*smt.Term)
			emptyStruct := false
			if a, ok := zero.(*Agg); ok && len(a.E) == 0 {
				emptyStruct = true
			}
			for i := len(mo.Keys) - 1; i >= 0; i-- {
				eq := e.valueEq(mo.Keys[i], k)
				if eq.IsFalse() {
					continue
				}
				if eq.IsTrue() {
					found = smt.True
					res = mo.Vals[i]
					continue
				}
				if scalar {
					res = smt.Ite(eq, mo.Vals[i].(*smt.Term), res.(*smt.Term))
					found = smt.Or(eq, found)
				} else if emptyStruct {
					found = smt.Or(eq, found)
				} else {
					if e.forkBool(eq) {
						found = smt.True
						res = mo.Vals[i]
						break
					}
				}
			}
			// keys are kept distinct, so order of the scan is irrelevant
		}
		if x.CommaOk {
			return Tuple{res, found}
		}
		return res
	case *Opaque:
		return m
	}
	e.unsupported("lookup in %T", cv)
	return nil
}

func (e *Exec) next(fr *Frame, x *ssa.Next) Value {
	it := e.get(fr, x.Iter).(*MapIter)
	if x.IsString {
		if it.Pos >= len(it.S.B) {
			return Tuple{smt.False, smt.BVC(64, 0), smt.BVC(32, 0)}
		}
		b := it.S.B[it.Pos]
		if b.Sort.K != smt.KBV {
			// Int-mode bytes: only ASCII strings are modelled
			if e.feasibleStrict(smt.IntCmp(smt.OIntLe, smt.IntC(0x80), b)) {
				e.unsupported("range over an Int-mode string with a non-ASCII byte")
			}
			r := Tuple{smt.True, smt.BVC(64, uint64(it.Pos)), b}
			it.Pos++
			return r
		}
		pos := it.Pos
		if smt.UMax(b) < 0x80 || e.forkBool(smt.BvCmp(smt.OBvUlt, b, smt.BVC(8, 0x80))) {
			it.Pos++
			return Tuple{smt.True, smt.BVC(64, uint64(pos)), smt.ZExt(b, 32)}
		}
		r, w := e.decodeRune(it.S.B[pos:])
		it.Pos += w
		return Tuple{smt.True, smt.BVC(64, uint64(pos)), r}
	}
	mt := x.Iter.(*ssa.Range).X.Type().Underlying().(*types.Map)
	if it.M != nil {
		cur := e.mapRead(it.M)
		for it.Pos < len(it.Keys) {
			k := it.Keys[it.Pos]
			it.Pos++
			// entries deleted since the range started are skipped; updated values are seen
			for i, ck := range cur.Keys {
				if sameKey(ck, k) {
					return Tuple{smt.True, k, cur.Vals[i]}
				}
			}
		}
	}
	return Tuple{smt.False, zeroValue(mt.Key()), zeroValue(mt.Elem())}
}

// decodeRune: UTF-8 decoding of the first character of bs (first byte known to be >= 0x80),
// exactly as the Go specification prescribes for range-over-string: a valid 2..4 byte sequence
// (shortest form, no surrogates, <= U+10FFFF) yields its code point and width, anything else
// yields U+FFFD and width 1. Forks on the sequence class and on its validity.
func (e *Exec) decodeRune(bs []*smt.Term) (*smt.Term, int) {
	c8 := func(v uint64) *smt.Term { return smt.BVC(8, v) }
	in := func(x *smt.Term, lo, hi uint64) *smt.Term {
		return smt.And(smt.BvCmp(smt.OBvUle, c8(lo), x), smt.BvCmp(smt.OBvUle, x, c8(hi)))
	}
	bad := smt.BVC(32, 0xFFFD)
	b0 := bs[0]
	// class 0: invalid lead byte; 1: two bytes; 2: three bytes; 3: four bytes
	conds := []*smt.Term{
		smt.Or(in(b0, 0x80, 0xC1), in(b0, 0xF5, 0xFF)),
		in(b0, 0xC2, 0xDF),
		in(b0, 0xE0, 0xEF),
		in(b0, 0xF0, 0xF4),
	}
	if e.guarded() {
		e.unsupported("range over a string with a non-ASCII byte under a merge guard")
	}
	cls := e.choose(len(conds), func(i int) bool { return e.feasible(conds[i]) })
	e.pc = append(e.pc, conds[cls])
	if cls == 0 || len(bs) < cls+1 {
		return bad, 1
	}
	cont := func(x *smt.Term) *smt.Term { return in(x, 0x80, 0xBF) }
	low6 := func(x *smt.Term) *smt.Term { return smt.ZExt(smt.Extract(x, 5, 0), 32) }
	shl := func(x *smt.Term, n uint64) *smt.Term { return smt.BvBin(smt.OBvShl, x, smt.BVC(32, n)) }
	or := func(x, y *smt.Term) *smt.Term { return smt.BvBin(smt.OBvOr, x, y) }
	var valid, r *smt.Term
	switch cls {
	case 1:
		valid = cont(bs[1])
		r = or(shl(smt.ZExt(smt.Extract(b0, 4, 0), 32), 6), low6(bs[1]))
	case 2:
		// E0: second byte A0..BF; ED: second byte 80..9F (no surrogates)
		second := smt.Ite(smt.Eq(b0, c8(0xE0)), in(bs[1], 0xA0, 0xBF),
			smt.Ite(smt.Eq(b0, c8(0xED)), in(bs[1], 0x80, 0x9F), cont(bs[1])))
		valid = smt.And(second, cont(bs[2]))
		r = or(or(shl(smt.ZExt(smt.Extract(b0, 3, 0), 32), 12), shl(low6(bs[1]), 6)), low6(bs[2]))
	case 3:
		// F0: second byte 90..BF; F4: second byte 80..8F
		second := smt.Ite(smt.Eq(b0, c8(0xF0)), in(bs[1], 0x90, 0xBF),
			smt.Ite(smt.Eq(b0, c8(0xF4)), in(bs[1], 0x80, 0x8F), cont(bs[1])))
		valid = smt.And(second, smt.And(cont(bs[2]), cont(bs[3])))
		r = or(or(or(shl(smt.ZExt(smt.Extract(b0, 2, 0), 32), 18), shl(low6(bs[1]), 12)), shl(low6(bs[2]), 6)), low6(bs[3]))
	}
	if e.forkBool(valid) {
		return r, cls + 1
	}
	return bad, 1
}

func sameKey(a, b Value) bool {
	switch x := a.(type) {
	case *smt.Term:
		y, ok := b.(*smt.Term)
		return ok && smt.Same(x, y)
	case *Str:
		y, ok := b.(*Str)
		if !ok || len(x.B) != len(y.B) {
			return false
		}
		for i := range x.B {
			if !smt.Same(x.B[i], y.B[i]) {
				return false
			}
		}
		return true
	case *Agg:
		y, ok := b.(*Agg)
		if !ok || len(x.E) != len(y.E) {
			return false
		}
		for i := range x.E {
			if !sameKey(x.E[i], y.E[i]) {
				return false
			}
		}
		return true
	}
	return a == b
}

// relaxedDiv returns a fresh q constrained by a sound superset of "q is the correctly rounded
// quotient a/c" (c a positive finite constant, a finite): |fma(q,c,-a)| <= RTP(|q|*c*2^-53),
// i.e. the residual of the rounded quotient is at most half an ulp of the exact quotient times c.
func (e *Exec) relaxedDiv(a, c *smt.Term) *smt.Term {
	e.fresh++
	q := smt.Var(fmt.Sprintf("fdiv_q_%d", e.fresh), smt.FP64)
	res := smt.Fp(smt.OFpFma, smt.FP64, q, c, smt.Fp(smt.OFpNeg, smt.FP64, a))
	bound := smt.Fp(smt.OFpMulRTP, smt.FP64, smt.Fp(smt.OFpMulRTP, smt.FP64, smt.Fp(smt.OFpAbs, smt.FP64, q), c), smt.FPC(math.Float64bits(math.Ldexp(1, -53))))
	e.pc = append(e.pc,
		smt.Not(smt.Fp(smt.OFpIsNaN, smt.Bool, q)),
		smt.Not(smt.Fp(smt.OFpIsInf, smt.Bool, q)),
		smt.Not(smt.Fp(smt.OFpIsInf, smt.Bool, bound)),
		smt.Not(smt.Fp(smt.OFpIsInf, smt.Bool, res)),
		smt.Not(smt.Fp(smt.OFpIsNaN, smt.Bool, res)),
		smt.Fp(smt.OFpLe, smt.Bool, smt.Fp(smt.OFpAbs, smt.FP64, res), bound))
	if cv := math.Float64frombits(c.Val); cv >= 1 {
		// |a/c| <= |a| and rounding is monotone
		e.pc = append(e.pc, smt.Fp(smt.OFpLe, smt.Bool, smt.Fp(smt.OFpAbs, smt.FP64, q), smt.Fp(smt.OFpAbs, smt.FP64, a)))
	}
	e.notes = append(e.notes, "relaxed-fdiv")
	return q
}
