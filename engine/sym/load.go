package sym

import (
	"fmt"
	"go/types"
	"os"
	"path/filepath"
	"sort"
	"strings"
	"sync"

	"golang.org/x/tools/go/packages"
	"golang.org/x/tools/go/ssa"
	"golang.org/x/tools/go/ssa/ssautil"

	"verif/engine/smt"
)

type Program struct {
	Prog    *ssa.Program
	Pkgs    map[string]*ssa.Package // by import path
	globals map[*ssa.Global]*Cell
	regions map[*ssa.BasicBlock]*region
	regMu   sync.Mutex
	InitLog []string
	RepoDir string
	methMu  sync.Mutex
	meths   map[string]*ssa.Function
}

// LoadOpts: Overlay maps virtual file paths (inside RepoDir) to contents.
type LoadOpts struct {
	RepoDir  string
	Patterns []string
	Overlay  map[string][]byte
	InitPkgs []string // import paths whose package initialisers are executed (in this order)
	ZeroPkgs []string // packages whose globals are zero (init not run), e.g. internal/cpu = no CPU features
}

func Load(o LoadOpts) (*Program, error) {
	cfg := &packages.Config{
		Mode:    packages.LoadAllSyntax,
		Dir:     o.RepoDir,
		Overlay: o.Overlay,
		Env:     append(os.Environ(), "GOFLAGS=-mod=mod", "GOPROXY=off", "GOSUMDB=off", "GOTOOLCHAIN=local"),
		Tests:   false,
	}
	pkgs, err := packages.Load(cfg, o.Patterns...)
	if err != nil {
		return nil, err
	}
	var errs []string
	packages.Visit(pkgs, nil, func(p *packages.Package) {
		for _, e := range p.Errors {
			errs = append(errs, e.Error())
		}
	})
	if len(errs) > 0 {
		return nil, fmt.Errorf("package load errors:\n%s", strings.Join(errs, "\n"))
	}
	prog, _ := ssautil.AllPackages(pkgs, ssa.InstantiateGenerics)
	prog.Build()
	p := &Program{Prog: prog, Pkgs: map[string]*ssa.Package{}, globals: map[*ssa.Global]*Cell{},
		regions: map[*ssa.BasicBlock]*region{}, RepoDir: o.RepoDir, meths: map[string]*ssa.Function{}}
	for _, sp := range prog.AllPackages() {
		p.Pkgs[sp.Pkg.Path()] = sp
	}
	// global cells: initialised packages get zero values, others are poisoned
	initSet := map[string]bool{}
	for _, ip := range o.InitPkgs {
		initSet[ip] = true
	}
	for _, ip := range o.ZeroPkgs {
		initSet[ip] = true
	}
	var paths []string
	for path := range p.Pkgs {
		paths = append(paths, path)
	}
	sort.Strings(paths)
	for _, path := range paths {
		sp := p.Pkgs[path]
		var names []string
		for n := range sp.Members {
			names = append(names, n)
		}
		sort.Strings(names)
		for _, n := range names {
			g, ok := sp.Members[n].(*ssa.Global)
			if !ok {
				continue
			}
			t := g.Type().Underlying().(*types.Pointer).Elem()
			var c *Cell
			if initSet[path] {
				c = safeZeroCell(t)
			} else {
				c = poisonCell(t, "global "+path+"."+n+" of a package whose init is not executed")
			}
			p.globals[g] = c
		}
	}
	// run initialisers
	for _, ip := range o.InitPkgs {
		sp := p.Pkgs[ip]
		if sp == nil {
			continue
		}
		p.runInit(sp)
	}
	// freeze
	seen := map[*Cell]bool{}
	seenM := map[*MapObj]bool{}
	for _, c := range p.globals {
		markBase(c, seen, seenM)
	}
	return p, nil
}

func safeZeroCell(t types.Type) (c *Cell) {
	defer func() {
		if r := recover(); r != nil {
			c = &Cell{V: &Opaque{fmt.Sprint(r)}}
		}
	}()
	return newCell(zeroValue(t))
}

func poisonCell(t types.Type, why string) *Cell {
	switch u := t.Underlying().(type) {
	case *types.Struct:
		c := &Cell{Sub: make([]*Cell, u.NumFields())}
		for i := range c.Sub {
			c.Sub[i] = poisonCell(u.Field(i).Type(), why)
		}
		return c
	case *types.Array:
		if u.Len() > 4096 {
			return &Cell{V: &Opaque{why}}
		}
		c := &Cell{Sub: make([]*Cell, int(u.Len()))}
		for i := range c.Sub {
			c.Sub[i] = poisonCell(u.Elem(), why)
		}
		return c
	}
	return &Cell{V: &Opaque{why}}
}

func markBase(c *Cell, seen map[*Cell]bool, seenM map[*MapObj]bool) {
	if c == nil || seen[c] {
		return
	}
	seen[c] = true
	c.base = true
	for _, s := range c.Sub {
		markBase(s, seen, seenM)
	}
	markBaseVal(c.V, seen, seenM)
}

func markBaseVal(v Value, seen map[*Cell]bool, seenM map[*MapObj]bool) {
	switch x := v.(type) {
	case *Pointer:
		markBase(x.C, seen, seenM)
		for _, c := range x.Arr {
			markBase(c, seen, seenM)
		}
	case *Slice:
		for _, c := range x.Back {
			markBase(c, seen, seenM)
		}
	case *Iface:
		markBaseVal(x.V, seen, seenM)
	case *Agg:
		for _, e := range x.E {
			markBaseVal(e, seen, seenM)
		}
	case *Map:
		if x.M != nil && !seenM[x.M] {
			seenM[x.M] = true
			x.M.base = true
			for i := range x.M.Keys {
				markBaseVal(x.M.Keys[i], seen, seenM)
				markBaseVal(x.M.Vals[i], seen, seenM)
			}
		}
	case *Closure:
		for _, b := range x.Bind {
			markBaseVal(b, seen, seenM)
		}
	case Tuple:
		for _, e := range x {
			markBaseVal(e, seen, seenM)
		}
	}
}

func (p *Program) globalCell(g *ssa.Global) *Cell {
	c, ok := p.globals[g]
	if !ok {
		panic(inconclusive{"unknown global " + g.String()})
	}
	return c
}

func (p *Program) lookupMethod(t types.Type, m *types.Func) *ssa.Function {
	key := t.String() + "#" + m.Id()
	p.methMu.Lock()
	defer p.methMu.Unlock()
	if f, ok := p.meths[key]; ok {
		return f
	}
	f := p.Prog.LookupMethod(t, m.Pkg(), m.Name())
	p.meths[key] = f
	return f
}

// runInit executes a package initialiser concretely and tolerantly.
func (p *Program) runInit(sp *ssa.Package) {
	initFn := sp.Func("init")
	if initFn == nil || initFn.Blocks == nil {
		return
	}
	cfg := DefaultCfg()
	cfg.Name = "init:" + sp.Pkg.Path()
	cfg.MaxLoop = 100000
	cfg.MaxSteps = 50_000_000
	e := &Exec{P: p, Cfg: cfg, tolerant: true}
	func() {
		defer func() {
			if r := recover(); r != nil {
				p.InitLog = append(p.InitLog, fmt.Sprintf("init of %s aborted: %v", sp.Pkg.Path(), r))
			}
		}()
		fr := &Frame{fn: initFn, vals: map[ssa.Value]Value{}, visits: map[*ssa.BasicBlock]int{}}
		e.frame = fr
		e.runFrom(fr, initFn.Blocks[0])
	}()
}

// FindFunc finds a package-level function.
func (p *Program) FindFunc(pkgPath, name string) *ssa.Function {
	sp := p.Pkgs[pkgPath]
	if sp == nil {
		return nil
	}
	return sp.Func(name)
}

func (p *Program) namedType(pkgPath, name string) types.Type {
	sp := p.Pkgs[pkgPath]
	if sp == nil {
		return nil
	}
	if t := sp.Type(name); t != nil {
		return t.Type()
	}
	return nil
}

// HarnessOverlay builds the overlay map for the harness files of one package directory.
func HarnessOverlay(repoDir, harnessDir string) (map[string][]byte, error) {
	ov := map[string][]byte{}
	err := filepath.Walk(harnessDir, func(path string, info os.FileInfo, err error) error {
		if err != nil {
			return err
		}
		if info.IsDir() || !strings.HasSuffix(path, ".go") {
			return nil
		}
		if strings.HasSuffix(path, "_native.go") || strings.HasSuffix(path, "_test.go") {
			return nil
		}
		rel, _ := filepath.Rel(harnessDir, path)
		b, err := os.ReadFile(path)
		if err != nil {
			return err
		}
		dir := filepath.Dir(rel)
		if dir == "root" {
			dir = "."
		} else if strings.HasPrefix(dir, "root/") {
			dir = strings.TrimPrefix(dir, "root/")
		}
		ov[filepath.Join(repoDir, dir, "zz_verif_"+filepath.Base(rel))] = b
		return nil
	})
	return ov, err
}

var _ = smt.True
