package sym

import (
	"fmt"
	"hash/fnv"

	"verif/engine/smt"
)

// Constant tables indexed by Int-mode values (Base58: alphabet[digit], b58[char]).
// A lookup is an uninterpreted function application plus lemmas that are first checked on the
// real table contents: value range, and - for a verified pair of mutually inverse tables - the
// inverse facts for this occurrence. Unpaired tables get their exact definition (ite chain).

func tabName(vals []int64) string {
	h := fnv.New64a()
	for _, v := range vals {
		fmt.Fprintf(h, "%d,", v)
	}
	return fmt.Sprintf("tab%d_%x", len(vals), h.Sum64())
}

func (e *Exec) intTableLookup(ts []*smt.Term, idx *smt.Term) Value {
	vals := make([]int64, len(ts))
	for i, t := range ts {
		if t.Op != smt.OConst {
			e.unsupported("Int-mode index into a non-constant table")
		}
		if t.Sort.K == smt.KInt {
			vals[i] = t.Big.Int64()
		} else {
			vals[i] = int64(t.Val)
		}
	}
	name := tabName(vals)
	if e.intTabs == nil {
		e.intTabs = map[string][]int64{}
	}
	e.intTabs[name] = vals
	// composition with the inverse partner folds: P[T[j]] = j
	if idx.Op == smt.OApp {
		if inner, ok := e.intTabs[idx.Name]; ok {
			ident := true
			for j, v := range inner {
				if v < 0 || int(v) >= len(vals) || vals[v] != int64(j) {
					ident = false
					break
				}
			}
			if ident {
				return idx.Args[0]
			}
		}
	}
	partner, paired := e.intPairs[name]
	if !paired {
		// exact definition
		r := smt.IntC(vals[len(vals)-1])
		for i := len(vals) - 2; i >= 0; i-- {
			r = smt.Ite(smt.Eq(idx, smt.IntC(int64(i))), smt.IntC(vals[i]), r)
		}
		return r
	}
	r := smt.App(name, smt.Int, idx)
	min, max := vals[0], vals[0]
	for _, v := range vals {
		if v < min {
			min = v
		}
		if v > max {
			max = v
		}
	}
	e.pc = append(e.pc, smt.IntCmp(smt.OIntLe, smt.IntC(min), r), smt.IntCmp(smt.OIntLe, r, smt.IntC(max)))
	pv := e.intTabs[partner]
	// inverse fact for this occurrence: whenever r is a valid index of the partner and the
	// partner maps it back (checked on the real tables for every entry), partner(r) = idx
	valid := func(v int64) bool { return v >= 0 && int(v) < len(pv) }
	allValidInverse := true
	sentinel := int64(-1)
	for i, v := range vals {
		if valid(v) && pv[v] == int64(i) {
			continue
		}
		// entries that are not inverted must all carry one sentinel value outside the partner's domain
		if valid(v) {
			allValidInverse = false
			break
		}
		if sentinel == -1 {
			sentinel = v
		} else if sentinel != v {
			allValidInverse = false
			break
		}
	}
	if allValidInverse {
		back := smt.App(partner, smt.Int, r)
		inDom := smt.And(smt.IntCmp(smt.OIntLe, smt.IntC(0), r), smt.IntCmp(smt.OIntLt, r, smt.IntC(int64(len(pv)))))
		e.pc = append(e.pc, smt.Implies(inDom, smt.Eq(back, idx)))
		if sentinel != -1 {
			e.pc = append(e.pc, smt.Or(inDom, smt.Eq(r, smt.IntC(sentinel))))
		}
	}
	if e.ufSeen == nil {
		e.ufSeen = map[string]bool{}
	}
	e.ufSeen["constant table "+name+" (UF + verified inverse lemmas)"] = true
	return r
}

// pairTables registers two constant tables as mutually inverse after checking it on their contents.
func (e *Exec) pairTables(a, b []int64) bool {
	for i, v := range a {
		if v < 0 || int(v) >= len(b) || b[v] != int64(i) {
			return false
		}
	}
	// b inverts a on a's image; elsewhere b must be a single sentinel outside a's domain
	sentinel := int64(-1)
	for c, v := range b {
		if v >= 0 && int(v) < len(a) {
			if a[v] != int64(c) {
				return false
			}
			continue
		}
		if sentinel == -1 {
			sentinel = v
		} else if sentinel != v {
			return false
		}
	}
	na, nb := tabName(a), tabName(b)
	if e.intTabs == nil {
		e.intTabs = map[string][]int64{}
	}
	if e.intPairs == nil {
		e.intPairs = map[string]string{}
	}
	e.intTabs[na], e.intTabs[nb] = a, b
	e.intPairs[na], e.intPairs[nb] = nb, na
	// ground facts: the uninterpreted functions agree with the real tables at every index
	for i, v := range a {
		e.pc = append(e.pc, smt.Eq(smt.App(na, smt.Int, smt.IntC(int64(i))), smt.IntC(v)))
	}
	for i, v := range b {
		e.pc = append(e.pc, smt.Eq(smt.App(nb, smt.Int, smt.IntC(int64(i))), smt.IntC(v)))
	}
	return true
}
