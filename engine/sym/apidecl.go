package sym

import "strings"

// APISymbolic is the body-less declaration file injected next to the harnesses when the
// engine loads the package (go/types accepts functions without bodies).
const apiSymbolic = `package PKG

func vCase(name string, lo, hi int) int
func vParam(name string, def int) int
func vSymbolic() bool
func vBool(name string) bool
func vU8(name string) byte
func vU16(name string) uint16
func vU32(name string) uint32
func vI32(name string) int32
func vU64(name string) uint64
func vI64(name string) int64
func vInt(name string) int
func vF64(name string) float64
func vSym(name string, bits int) byte
func vBits(name string, bits int) uint64
func vBytes(name string, n int) []byte
func vSyms(name string, n int, bits int) []byte
func vIntBytes(name string, n int) []byte
func vBuf(name string, minLen, maxLen int) []byte
func vAssume(c bool)
func vAssert(label string, c bool)
func vReach(label string)
func vAnd(a, b bool) bool
func vOr(a, b bool) bool
func vImplies(a, b bool) bool
func vIte64(c bool, a, b uint64) uint64
func vIte8(c bool, a, b byte) byte
func vEqBytes(a, b []byte) bool
func vEqStr(a, b string) bool
func vTry(f func()) bool
func vNote(s string)
func vUFBytes(name string, in []byte, outLen int) []byte
func vSupportSweep(label string, e []byte, w int)
func vBufClone(b []byte) []byte
func vFailedCount() int
func vInverseTables(a string, b []byte) bool
func vUF64(name string, a, b, c uint64) uint64
func vWatchOff()
func vWatchOn()
func vWatchHits() int
`

func APISymbolic(pkgName string) []byte {
	return []byte(strings.Replace(apiSymbolic, "PKG", pkgName, 1))
}

// apiNative is the executable counterpart used for replaying a model against the real build.
const apiNative = `package PKG

import (
	"encoding/json"
	"fmt"
	"math"
	"math/big"
	"os"
	"strconv"
)

type vModelT struct {
	Vars      map[string]string
	Decisions []int
}

var vModel vModelT
var vNames = map[string]int{}
var vDecPos int
var vFailed []string
var vReached = map[string]bool{}

func vLoadModel(path string) {
	vModel = vModelT{}
	vNames = map[string]int{}
	vDecPos = 0
	vFailed = nil
	b, err := os.ReadFile(path)
	if err != nil {
		panic(err)
	}
	if err := json.Unmarshal(b, &vModel); err != nil {
		panic(err)
	}
}

func vLookup(name string) *big.Int {
	k := vNames[name]
	vNames[name] = k + 1
	full := fmt.Sprintf("%s#%d", name, k)
	if s, ok := vModel.Vars[full]; ok {
		if b, ok := new(big.Int).SetString(s, 10); ok {
			return b
		}
	}
	return new(big.Int)
}

func vCase(name string, lo, hi int) int {
	if vDecPos < len(vModel.Decisions) {
		d := vModel.Decisions[vDecPos]
		vDecPos++
		return lo + d
	}
	vDecPos++
	return lo
}
func vParam(name string, def int) int {
	if s, ok := vModel.Vars["param:"+name]; ok {
		n, _ := strconv.Atoi(s)
		return n
	}
	return def
}
func vSymbolic() bool            { return false }
func vBool(name string) bool     { return vLookup(name).Sign() != 0 }
func vU8(name string) byte       { return byte(vLookup(name).Uint64()) }
func vU16(name string) uint16    { return uint16(vLookup(name).Uint64()) }
func vU32(name string) uint32    { return uint32(vLookup(name).Uint64()) }
func vI32(name string) int32     { return int32(uint32(vLookup(name).Uint64())) }
func vU64(name string) uint64    { return vLookup(name).Uint64() }
func vI64(name string) int64     { return int64(vLookup(name).Uint64()) }
func vInt(name string) int       { return int(vLookup(name).Uint64()) }
func vF64(name string) float64   { return math.Float64frombits(vLookup(name).Uint64()) }
func vSym(name string, bits int) byte { return byte(vLookup(name).Uint64()) & byte((1<<uint(bits))-1) }
func vBits(name string, bits int) uint64 {
	v := vLookup(name).Uint64()
	if bits < 64 {
		v &= (1 << uint(bits)) - 1
	}
	return v
}
func vBytes(name string, n int) []byte {
	b := make([]byte, n)
	for i := range b {
		b[i] = byte(vLookup(fmt.Sprintf("%s[%d]", name, i)).Uint64())
	}
	return b
}
func vSyms(name string, n int, bits int) []byte {
	b := make([]byte, n)
	for i := range b {
		b[i] = byte(vLookup(fmt.Sprintf("%s[%d]", name, i)).Uint64()) & byte((1<<uint(bits))-1)
	}
	return b
}
func vIntBytes(name string, n int) []byte { return vBytes(name, n) }
func vBuf(name string, minLen, maxLen int) []byte {
	n := int(vLookup(name + ".len").Uint64())
	b := make([]byte, n)
	for i := range b {
		if s, ok := vModel.Vars[fmt.Sprintf("%s.arr[%d]", name, i)]; ok {
			v, _ := strconv.Atoi(s)
			b[i] = byte(v)
		}
	}
	return b
}

type vAssumeFailed struct{}

func vAssume(c bool) {
	if !c {
		panic(vAssumeFailed{})
	}
}
func vAssert(label string, c bool) {
	if !c {
		vFailed = append(vFailed, label)
	}
}
func vReach(label string)            { vReached[label] = true }
func vAnd(a, b bool) bool            { return a && b }
func vOr(a, b bool) bool             { return a || b }
func vImplies(a, b bool) bool        { return !a || b }
func vIte64(c bool, a, b uint64) uint64 {
	if c {
		return a
	}
	return b
}
func vIte8(c bool, a, b byte) byte {
	if c {
		return a
	}
	return b
}
func vEqBytes(a, b []byte) bool { return string(a) == string(b) }
func vEqStr(a, b string) bool   { return a == b }
func vTry(f func()) (panicked bool) {
	defer func() {
		if r := recover(); r != nil {
			if _, ok := r.(vAssumeFailed); ok {
				panic(r)
			}
			panicked = true
			vFailed = append(vFailed, fmt.Sprintf("note:panic:%v", r))
		}
	}()
	f()
	return false
}
func vNote(s string) {}
func vBufClone(b []byte) []byte { return append([]byte(nil), b...) }
func vFailedCount() int         { return len(vFailed) }
func vInverseTables(a string, b []byte) bool { return true }
func vUF64(name string, a, b, c uint64) uint64 {
	h := uint64(1469598103934665603)
	for _, x := range []uint64{a, b, c} {
		for i := 0; i < 8; i++ {
			h = (h ^ (x >> uint(8*i) & 0xff)) * 1099511628211
		}
	}
	return h
}
func vWatchOff()                {}
func vWatchOn()                 {}
func vWatchHits() int           { return 1 }
func vSupportSweep(label string, e []byte, w int) {
	nz := 0
	for _, x := range e {
		if x != 0 {
			nz++
		}
	}
	if nz >= 1 && nz <= w {
		vFailed = append(vFailed, label)
	}
}
func vUFBytes(name string, in []byte, outLen int) []byte {
	// natively an arbitrary but deterministic function
	out := make([]byte, outLen)
	h := uint32(2166136261)
	for _, c := range []byte(name) {
		h = (h ^ uint32(c)) * 16777619
	}
	for _, c := range in {
		h = (h ^ uint32(c)) * 16777619
	}
	for i := range out {
		h = (h ^ uint32(i)) * 16777619
		out[i] = byte(h >> 13)
	}
	return out
}
`

func APINative(pkgName string) []byte {
	return []byte(strings.Replace(apiNative, "PKG", pkgName, 1))
}
