package sym

import (
	"go/types"

	"golang.org/x/tools/go/ssa"

	"verif/engine/smt"
)

// A region is an acyclic set of side-effect-light blocks between a symbolic If (head) and the
// first block where all its non-exiting paths converge (join). Blocks ending in Return/Panic
// reachable from the region are "exits": taking one forks the path.
type region struct {
	head  *ssa.BasicBlock
	join  *ssa.BasicBlock
	order []*ssa.BasicBlock // interior blocks in topological order
	exits map[*ssa.BasicBlock]bool
}

type blockTarget struct {
	block *ssa.BasicBlock
	pred  *ssa.BasicBlock
}

const maxRegionBlocks = 96

func pureInstr(ins ssa.Instruction) bool {
	switch x := ins.(type) {
	case *ssa.BinOp, *ssa.UnOp, *ssa.Convert, *ssa.ChangeType, *ssa.Extract, *ssa.Field,
		*ssa.FieldAddr, *ssa.IndexAddr, *ssa.Index, *ssa.Phi, *ssa.DebugRef, *ssa.Jump, *ssa.If,
		*ssa.Slice, *ssa.MakeInterface, *ssa.ChangeInterface:
		if sl, ok := ins.(*ssa.Slice); ok {
			_ = sl
		}
		return true
	case *ssa.Lookup:
		// string index or map lookup with scalar value
		return true
	case *ssa.Alloc:
		return true
	case *ssa.Store:
		return isScalar(x.Val.Type())
	case *ssa.Call:
		if b, ok := x.Call.Value.(*ssa.Builtin); ok {
			switch b.Name() {
			case "len", "cap", "min", "max":
				return true
			}
		}
		if fn, ok := x.Call.Value.(*ssa.Function); ok {
			if pureIntrinsics[fn.String()] {
				return true
			}
		}
		return false
	}
	return false
}

func scalarPhis(b *ssa.BasicBlock) bool {
	for _, ins := range b.Instrs {
		phi, ok := ins.(*ssa.Phi)
		if !ok {
			break
		}
		if !isScalar(phi.Type()) {
			// allow phis whose type is string/pointer only if merge can prove identical; be strict
			if _, isPtr := phi.Type().Underlying().(*types.Pointer); isPtr {
				continue // handled dynamically (must be identical)
			}
			if _, isIf := phi.Type().Underlying().(*types.Interface); isIf {
				continue
			}
			return false
		}
	}
	return true
}

func isExit(b *ssa.BasicBlock) bool {
	if len(b.Instrs) == 0 {
		return false
	}
	switch b.Instrs[len(b.Instrs)-1].(type) {
	case *ssa.Return, *ssa.Panic:
		return true
	}
	return false
}

func interiorOK(b *ssa.BasicBlock) bool {
	for _, ins := range b.Instrs {
		if !pureInstr(ins) {
			return false
		}
	}
	return scalarPhis(b)
}

type edge struct{ from, to *ssa.BasicBlock }

func computeRegion(head *ssa.BasicBlock) *region {
	if r := computeRegionMode(head, false); r != nil {
		return r
	}
	return computeRegionMode(head, true)
}

func computeRegionMode(head *ssa.BasicBlock, eagerExits bool) *region {
	rg := &region{head: head, exits: map[*ssa.BasicBlock]bool{}}
	open := map[edge]int{}
	for _, s := range head.Succs {
		open[edge{head, s}]++
	}
	inRegion := map[*ssa.BasicBlock]bool{head: true}
	for steps := 0; steps < maxRegionBlocks*4; steps++ {
		// convergence?
		all := map[*ssa.BasicBlock]bool{}
		for ed := range open {
			all[ed.to] = true
		}
		if len(all) == 1 {
			for t := range all {
				rg.join = t
			}
			break
		}
		if eagerExits {
			nonExit := map[*ssa.BasicBlock]bool{}
			for t := range all {
				if isExit(t) {
					rg.exits[t] = true
				} else {
					nonExit[t] = true
				}
			}
			if len(nonExit) == 1 {
				for t := range nonExit {
					rg.join = t
				}
				break
			}
			if len(nonExit) == 0 {
				return nil
			}
		}
		// pick a processable interior target first; exits are only split off when nothing else
		// can be absorbed (a Return block reached from every arm is the join, not an exit)
		var pick *ssa.BasicBlock
		for t := range all {
			if rg.exits[t] {
				continue
			}
			if inRegion[t] {
				return nil // cycle
			}
			have := 0
			for ed, n := range open {
				if ed.to == t {
					have += n
				}
			}
			if have != len(t.Preds) {
				continue
			}
			if isExit(t) {
				continue
			}
			if interiorOK(t) {
				if pick == nil || t.Index < pick.Index {
					pick = t
				}
			}
		}
		if pick == nil {
			targets := map[*ssa.BasicBlock]bool{}
			newExit := false
			for t := range all {
				if rg.exits[t] {
					continue
				}
				if isExit(t) {
					rg.exits[t] = true
					newExit = true
				} else {
					targets[t] = true
				}
			}
			if len(targets) == 1 {
				for t := range targets {
					rg.join = t
				}
				break
			}
			if len(targets) == 0 || !newExit {
				return nil
			}
			return nil
		}
		if pick == nil {
			return nil
		}
		for ed := range open {
			if ed.to == pick {
				delete(open, ed)
			}
		}
		inRegion[pick] = true
		rg.order = append(rg.order, pick)
		if len(rg.order) > maxRegionBlocks {
			return nil
		}
		for _, s := range pick.Succs {
			open[edge{pick, s}]++
		}
	}
	if rg.join == nil {
		return nil
	}
	// phis at join must be mergeable
	if !scalarPhis(rg.join) {
		return nil
	}
	// exits must only be entered from region blocks (they are leaves, any content)
	return rg
}

func (p *Program) region(head *ssa.BasicBlock) *region {
	p.regMu.Lock()
	defer p.regMu.Unlock()
	if r, ok := p.regions[head]; ok {
		return r
	}
	r := computeRegion(head)
	p.regions[head] = r
	return r
}

// execRegion executes a merged region. It returns either the list of guarded edges entering
// the join (second result non-nil) or the exit block the path committed to.
func (e *Exec) execRegion(fr *Frame, head *ssa.BasicBlock, rg *region, cond *smt.Term) (blockTarget, []edgeIn) {
	outer := e.guard
	if outer == nil {
		outer = smt.True
	}
	defer func() { e.guard = outerOrNil(outer) }()
	in := map[*ssa.BasicBlock][]edgeIn{}
	var joinEdges []edgeIn

	// addEdge handles an edge leaving block `from` under guard g (relative to outer).
	addEdge := func(from, to *ssa.BasicBlock, g *smt.Term) (blockTarget, bool) {
		if g.IsFalse() {
			return blockTarget{}, false
		}
		if rg.exits[to] {
			full := smt.And(outer, g)
			if e.forkOn(full, smt.Not(full)) {
				return blockTarget{block: to, pred: from}, true
			}
			return blockTarget{}, false
		}
		if to == rg.join {
			joinEdges = append(joinEdges, edgeIn{from, g})
			return blockTarget{}, false
		}
		in[to] = append(in[to], edgeIn{from, g})
		return blockTarget{}, false
	}
	if head.Succs[0] == head.Succs[1] {
		e.unsupported("degenerate if")
	}
	if bt, exit := addEdge(head, head.Succs[0], cond); exit {
		return bt, nil
	}
	if bt, exit := addEdge(head, head.Succs[1], smt.Not(cond)); exit {
		return bt, nil
	}
	for _, b := range rg.order {
		edges := in[b]
		if len(edges) == 0 {
			continue
		}
		gs := make([]*smt.Term, len(edges))
		for i, ed := range edges {
			gs[i] = ed.guard
		}
		bg := smt.Or(gs...)
		if bg.IsFalse() {
			continue
		}
		e.guard = smt.And(outer, bg)
		// phis
		i := 0
		var phiVals []Value
		for ; i < len(b.Instrs); i++ {
			phi, ok := b.Instrs[i].(*ssa.Phi)
			if !ok {
				break
			}
			phiVals = append(phiVals, e.mergePhi(fr, phi, b, edges))
		}
		for k := 0; k < i; k++ {
			fr.vals[b.Instrs[k].(*ssa.Phi)] = phiVals[k]
		}
		for ; i < len(b.Instrs); i++ {
			ins := b.Instrs[i]
			fr.cur = ins
			e.steps++
			e.Instrs++
			switch x := ins.(type) {
			case *ssa.Jump:
				e.guard = outerOrNil(outer)
				if bt, exit := addEdge(b, b.Succs[0], bg); exit {
					return bt, nil
				}
			case *ssa.If:
				c := e.term(fr, x.Cond)
				e.guard = outerOrNil(outer)
				if bt, exit := addEdge(b, b.Succs[0], smt.And(bg, c)); exit {
					return bt, nil
				}
				if bt, exit := addEdge(b, b.Succs[1], smt.And(bg, smt.Not(c))); exit {
					return bt, nil
				}
			default:
				e.instr(fr, ins)
			}
		}
	}
	if len(joinEdges) == 0 {
		panic(pathEnd{"no feasible path to join"})
	}
	return blockTarget{}, joinEdges
}

func outerOrNil(g *smt.Term) *smt.Term {
	if g == nil || g.IsTrue() {
		return nil
	}
	return g
}

// mergePhi computes a phi's value from a set of guarded incoming edges.
func (e *Exec) mergePhi(fr *Frame, phi *ssa.Phi, b *ssa.BasicBlock, edges []edgeIn) Value {
	var res Value
	for k := len(edges) - 1; k >= 0; k-- {
		ed := edges[k]
		idx := -1
		for i, p := range b.Preds {
			if p == ed.pred {
				idx = i
				break
			}
		}
		if idx < 0 {
			e.unsupported("merge phi: no pred")
		}
		v := e.get(fr, phi.Edges[idx])
		if res == nil {
			res = v
			continue
		}
		vt, ok1 := v.(*smt.Term)
		rt, ok2 := res.(*smt.Term)
		if ok1 && ok2 {
			res = smt.Ite(ed.guard, vt, rt)
			continue
		}
		if sameValue(v, res) {
			continue
		}
		if ia, ok := v.(*Iface); ok {
			if ib, ok := res.(*Iface); ok && ia.T == nil && ib.T == nil {
				continue
			}
		}
		e.unsupported("cannot merge phi of %T", v)
	}
	return res
}
