package sym

import (
	"fmt"
	"strings"

	"golang.org/x/tools/go/ssa"

	"verif/engine/smt"
)

// HarnessCfg holds bounds and modelling switches for one harness function.
type HarnessCfg struct {
	Name          string
	Pkg           string // import path of the package the harness lives in
	MaxLoop       int
	MaxSteps      int
	MaxPaths      int
	MaxAlloc      int
	TimeoutMs     int
	FeasTimeoutMs int
	ConcretizeMax int
	Lazy          bool // do not check branch feasibility
	NoMerge       bool
	PanicsAllowed bool // panics unwind (harness observes them with vTry)
	UFMul         bool
	UFAlways      bool // hash functions stay uninterpreted even on constant input
	AssumeLast    bool
	Stubs         map[string]string
	Backend       string
	RealRipemd    func([]byte) []byte
	Workers       int
	Params        map[string]int // tier-dependent integer parameters readable through vParam
	RealBase58    bool           // execute base58.Encode/Decode for real (Int mode) instead of the abstract bijection
	SymbolicMake  bool            // make([]byte, n) with symbolic n yields a symbolic-length buffer
	UFCalls       map[string]bool // functions (by full name) replaced by uninterpreted functions of their arguments
	TimeBudgetS   int             // wall-clock budget for one harness; exploration stops (reported) when exceeded
	AllocLimit    int             // >0: allocations sized by a symbolic count must not exceed it (obligation)
	InjectiveUF   bool            // hash UFs are collision free (pairwise lemmas per path)
	BatchPanics   bool            // implicit panic checks of a path are discharged together
	UFRem         bool            // unsigned x % m with symbolic m is an uninterpreted function with the lemma r < m
	RelaxFDiv     bool // float division by a constant is relaxed to its FMA characterisation
	ModAsCondSub  bool           // (a+b) mod N as conditional subtraction (with a checked side condition)
}

func DefaultCfg() *HarnessCfg {
	return &HarnessCfg{MaxLoop: 4096, MaxSteps: 20_000_000, MaxPaths: 200000, MaxAlloc: 1 << 20,
		TimeoutMs: 60000, FeasTimeoutMs: 10000, ConcretizeMax: 256, Backend: "z3", Workers: 8, BatchPanics: true}
}

func (e *Exec) constStr(v Value) string {
	s, ok := v.(*Str)
	if !ok {
		e.unsupported("expected constant string")
	}
	b, ok := allConst(s.B)
	if !ok {
		e.unsupported("expected constant string")
	}
	return string(b)
}

func (e *Exec) constInt(v Value) int {
	t, ok := v.(*smt.Term)
	if !ok {
		e.unsupported("expected constant int")
	}
	c, ok := t.ConstS()
	if !ok {
		e.unsupported("expected constant int, got symbolic")
	}
	return int(c)
}

func (e *Exec) newInput(name string, s smt.Sort, kind string) *smt.Term {
	if e.inNames == nil {
		e.inNames = map[string]int{}
	}
	k := e.inNames[name]
	e.inNames[name] = k + 1
	full := fmt.Sprintf("%s#%d", name, k)
	t := smt.Var(full, s)
	e.inputs = append(e.inputs, InputVar{Name: full, T: t, Kind: kind})
	return t
}

func (e *Exec) harnessAPI(fn *ssa.Function, args []Value) Value {
	switch fn.Name() {
	case "vCase":
		name := e.constStr(args[0])
		lo, hi := e.constInt(args[1]), e.constInt(args[2])
		if hi < lo {
			panic(pathEnd{"empty case range " + name})
		}
		start := len(e.forks)
		ch := e.choose(hi-lo+1, nil)
		e.trace[len(e.trace)-1].Case = true
		for _, f := range e.forks[start:] {
			f[len(f)-1].Case = true
		}
		return smt.BVC(64, uint64(int64(lo+ch)))
	case "vParam":
		name := e.constStr(args[0])
		def := e.constInt(args[1])
		if v, ok := e.Cfg.Params[name]; ok {
			return smt.BVC(64, uint64(int64(v)))
		}
		return smt.BVC(64, uint64(int64(def)))
	case "vSymbolic":
		return smt.True
	case "vBool":
		return e.newInput(e.constStr(args[0]), smt.Bool, "bool")
	case "vU8":
		return e.newInput(e.constStr(args[0]), smt.BV(8), "u8")
	case "vU16":
		return e.newInput(e.constStr(args[0]), smt.BV(16), "u16")
	case "vU32", "vI32":
		return e.newInput(e.constStr(args[0]), smt.BV(32), "u32")
	case "vU64", "vI64", "vInt":
		return e.newInput(e.constStr(args[0]), smt.BV(64), "u64")
	case "vF64":
		return e.newInput(e.constStr(args[0]), smt.FP64, "f64")
	case "vSym":
		bits := e.constInt(args[1])
		return smt.ZExt(e.newInput(e.constStr(args[0]), smt.BV(bits), "sym"), 8)
	case "vBits":
		bits := e.constInt(args[1])
		return smt.ZExt(e.newInput(e.constStr(args[0]), smt.BV(bits), "bits"), 64)
	case "vBytes":
		name := e.constStr(args[0])
		n := e.constInt(args[1])
		ts := make([]*smt.Term, n)
		for i := range ts {
			ts[i] = e.newInput(fmt.Sprintf("%s[%d]", name, i), smt.BV(8), "u8")
		}
		return e.newByteSlice(ts)
	case "vSyms":
		name := e.constStr(args[0])
		n := e.constInt(args[1])
		bits := e.constInt(args[2])
		ts := make([]*smt.Term, n)
		for i := range ts {
			ts[i] = smt.ZExt(e.newInput(fmt.Sprintf("%s[%d]", name, i), smt.BV(bits), "sym"), 8)
		}
		return e.newByteSlice(ts)
	case "vIntBytes":
		name := e.constStr(args[0])
		n := e.constInt(args[1])
		ts := make([]*smt.Term, n)
		for i := range ts {
			t := e.newInput(fmt.Sprintf("%s[%d]", name, i), smt.Int, "ibyte")
			e.pc = append(e.pc, smt.IntCmp(smt.OIntLe, smt.IntC(0), t), smt.IntCmp(smt.OIntLe, t, smt.IntC(255)))
			ts[i] = t
		}
		return e.newByteSlice(ts)
	case "vAssume":
		e.assume(args[0].(*smt.Term))
		return nil
	case "vAssert":
		label := e.constStr(args[0])
		c := args[1].(*smt.Term)
		e.check("assert", label, c)
		return nil
	case "vReach":
		label := e.constStr(args[0])
		e.reach(label)
		return nil
	case "vAnd":
		return smt.And(args[0].(*smt.Term), args[1].(*smt.Term))
	case "vOr":
		return smt.Or(args[0].(*smt.Term), args[1].(*smt.Term))
	case "vImplies":
		return smt.Implies(args[0].(*smt.Term), args[1].(*smt.Term))
	case "vIte64":
		return smt.Ite(args[0].(*smt.Term), args[1].(*smt.Term), args[2].(*smt.Term))
	case "vIte8":
		return smt.Ite(args[0].(*smt.Term), args[1].(*smt.Term), args[2].(*smt.Term))
	case "vEqBytes":
		a, b := e.sliceTerms(args[0]), e.sliceTerms(args[1])
		return strEq(&Str{B: a}, &Str{B: b})
	case "vEqStr":
		return strEq(args[0].(*Str), args[1].(*Str))
	case "vTry":
		// vTry(f func()) (panicked bool)
		c := args[0].(*Closure)
		return e.try(c)
	case "vNote":
		e.notes = append(e.notes, e.constStr(args[0]))
		return nil
	case "vUFBytes":
		// vUFBytes(name string, in []byte, outLen int) []byte
		name := e.constStr(args[0])
		in := e.sliceTerms(args[1])
		n := e.constInt(args[2])
		return e.newByteSlice(e.ufBytes("h_"+name, in, n, nil))
	case "vBuf":
		// vBuf(name string, minLen, maxLen int) []byte : symbolic length and contents
		name := e.constStr(args[0])
		lo, hi := e.constInt(args[1]), e.constInt(args[2])
		ln := e.newInput(name+".len", smt.BV(64), "u64")
		e.pc = append(e.pc, smt.BvCmp(smt.OBvUle, smt.BVC(64, uint64(lo)), ln), smt.BvCmp(smt.OBvUle, ln, smt.BVC(64, uint64(hi))))
		arr := smt.Var(name+".arr", smt.Arr32)
		e.bufInputs = append(e.bufInputs, BufInput{Name: name, Arr: arr, Len: ln})
		return &Slice{Buf: &SymBuf{Arr: arr, Len: ln}}
	}
	if strings.HasPrefix(fn.Name(), "v") {
		if r, ok := e.harnessAPI2(fn, args); ok {
			return r
		}
	}
	e.unsupported("unknown harness API %s", fn.Name())
	return nil
}

type BufInput struct {
	Name string
	Arr  *smt.Term
	Len  *smt.Term
}

// try runs a closure; returns a Bool term (constant per path) telling whether it panicked.
func (e *Exec) try(c *Closure) (res Value) {
	savedAllowed := e.Cfg.PanicsAllowed
	savedFrame, savedDepth, savedGuard := e.frame, e.depth, e.guard
	cfg := *e.Cfg
	cfg.PanicsAllowed = true
	e.Cfg = &cfg
	defer func() {
		cfg2 := *e.Cfg
		cfg2.PanicsAllowed = savedAllowed
		e.Cfg = &cfg2
		if r := recover(); r != nil {
			if gp, ok := r.(goPanic); ok {
				e.frame, e.depth, e.guard = savedFrame, savedDepth, savedGuard
				e.notes = append(e.notes, "panic: "+gp.msg)
				e.lastPanic = gp.msg
				res = smt.True
				return
			}
			panic(r)
		}
	}()
	e.callClosure(c, nil)
	return smt.False
}

func (e *Exec) reach(label string) {
	if e.reached == nil {
		e.reached = map[string]bool{}
	}
	if e.reached[label] {
		return
	}
	if e.Shared != nil && e.Shared.reachedAlready(label) {
		e.reached[label] = true
		return
	}
	// the path condition must be satisfiable for the witness to count
	a := e.Solver.Check(e.script(), e.Cfg.TimeoutMs)
	if a.Res == smt.Sat {
		e.reached[label] = true
		if e.Shared != nil {
			e.Shared.markReached(label)
		}
	}
}
