package sym

import (
	"fmt"
	"go/constant"
	"go/token"
	"go/types"
	"math"
	"math/big"
	"os"
	"strings"
	"sync"

	"golang.org/x/tools/go/ssa"

	"verif/engine/smt"
)

var debugFeas = os.Getenv("GOSMT_DEBUG_FEAS") != ""
var forkStat map[string]int
var forkStatMu sync.Mutex

func init() {
	if os.Getenv("GOSMT_FORKSTAT") != "" {
		forkStat = map[string]int{}
	}
}

// ForkStats returns fork counts per source location (debugging aid).
func ForkStats() map[string]int { return forkStat }

// ---- control-flow signals (Go panics caught by the path driver) ------------

type pathEnd struct{ why string }      // path finished normally / assumption false
type inconclusive struct{ why string } // unsupported feature on this path
type goPanic struct {                  // the program under test panicked
	msg string
	val Value
}

func (e *Exec) unsupported(format string, a ...interface{}) {
	panic(inconclusive{fmt.Sprintf(format, a...) + " @ " + e.where()})
}

type Frame struct {
	fn     *ssa.Function
	vals   map[ssa.Value]Value
	defers []*ssa.Defer
	dvals  [][]Value
	prev   *ssa.BasicBlock
	visits map[*ssa.BasicBlock]int
	cur    ssa.Instruction
	parent *Frame
}

type InputVar struct {
	Name string
	T    *smt.Term
	Kind string
}

type Obligation struct {
	Label   string
	Harness string
	Verdict string // unsat | sat | unknown | trivial | infeasible
	Millis  int64
	Model   map[string]string // input name -> value (hex/dec)
	Trace   []Decision
	Where   string
	Kind    string // assert | panic | bound | reach
	Note    string
	UF      []UFRec
}

type UFRec struct {
	Name string
	Args []string // hex bytes per argument
	Val  string
}

type ufLogEntry struct {
	name string
	args [][]*smt.Term
	res  *smt.Term
}

type Decision struct {
	Choice  int
	Checked bool
	Case    bool // taken by vCase (replayed natively)
}

// Exec is the state of one symbolic path.
type Exec struct {
	P      *Program
	Cfg    *HarnessCfg
	Solver *smt.Solver
	pc     []*smt.Term
	extra  []string // raw axioms
	guard  *smt.Term

	prefix []Decision
	pos    int
	trace  []Decision
	forks  [][]Decision // alternatives discovered on this path

	inputs        []InputVar
	inNames       map[string]int
	obls          []Obligation
	reached       map[string]bool
	notes         []string
	ovl           map[*Cell]Value
	mapOvl        map[*MapObj]*MapObj
	steps         int
	depth         int
	frame         *Frame
	funcs         map[string]bool
	tolerant      bool // init mode: unsupported => opaque
	ufSeen        map[string]bool
	fresh         int
	lockHeld map[*Cell]int
	pools    map[*Cell][]Value // ghost contents of sync.Pool objects
	ghost         map[string]Value
	feasQ         int
	bufInputs     []BufInput
	lastPanic     string
	pending       []pendingPanic
	ufApps        map[string][][2]*smt.Term
	ufLog         []ufLogEntry
	intTabs       map[string][]int64
	intPairs      map[string]string // table name -> inverse partner
	watchOff      bool
	Shared        *Shared
	endWhy        string
	inconcl       string
	b58           []b58rec
	watch         map[*Cell]*Cell // cell -> mutex cell that must be held on access
	watchBuf      map[*SymBuf]*Cell
	watchHits     int
	SweepSupports int
	SweepMs       int64
	// statistics
	Instrs int
}

func (e *Exec) where() string {
	f := e.frame
	if f == nil {
		return "?"
	}
	s := f.fn.String()
	if f.cur != nil {
		if p := f.cur.Pos(); p.IsValid() {
			pos := e.P.Prog.Fset.Position(p)
			s += fmt.Sprintf(" (%s:%d)", shortPath(pos.Filename), pos.Line)
		}
	}
	return s
}

func shortPath(p string) string {
	if i := strings.LastIndex(p, "/"); i >= 0 {
		return p[i+1:]
	}
	return p
}

func (e *Exec) stack() string {
	var sb strings.Builder
	for f := e.frame; f != nil; f = f.parent {
		sb.WriteString(f.fn.String())
		sb.WriteString(" <- ")
	}
	return sb.String()
}

// ---- memory -----------------------------------------------------------------

func (e *Exec) load(c *Cell) Value {
	if c.Sub != nil {
		a := &Agg{E: make([]Value, len(c.Sub))}
		for i, s := range c.Sub {
			a.E[i] = e.load(s)
		}
		return a
	}
	if e.watch != nil {
		e.checkWatch(c, "read")
	}
	if c.base && e.ovl != nil {
		if v, ok := e.ovl[c]; ok {
			return v
		}
	}
	return c.V
}

func (e *Exec) checkWatch(c *Cell, what string) {
	if mu, ok := e.watch[c]; ok && !e.watchOff {
		e.watchHits++
		switch {
		case e.lockHeld[mu] == 0:
			e.check("assert", "lock:unlocked-"+what+"@"+e.frame.fn.Name(), smt.False)
		case what == "write" && e.lockHeld[mu] == 1:
			e.check("assert", "lock:write-under-read-lock@"+e.frame.fn.Name(), smt.False)
		}
	}
}

func (e *Exec) checkWatchBuf(b *SymBuf, what string) {
	if mu, ok := e.watchBuf[b]; ok && !e.watchOff {
		e.watchHits++
		switch {
		case e.lockHeld[mu] == 0:
			e.check("assert", "lock:unlocked-"+what+"@"+e.frame.fn.Name(), smt.False)
		case what == "write" && e.lockHeld[mu] == 1:
			e.check("assert", "lock:write-under-read-lock@"+e.frame.fn.Name(), smt.False)
		}
	}
}

func (e *Exec) guarded() bool { return e.guard != nil && !e.guard.IsTrue() }

func (e *Exec) store(c *Cell, v Value) {
	if c.Sub != nil {
		a, ok := v.(*Agg)
		if !ok {
			if op, isOp := v.(*Opaque); isOp {
				for _, s := range c.Sub {
					e.store(s, op)
				}
				return
			}
			e.unsupported("store non-aggregate %T into aggregate cell", v)
		}
		if len(a.E) != len(c.Sub) {
			e.unsupported("aggregate size mismatch")
		}
		for i, s := range c.Sub {
			e.store(s, a.E[i])
		}
		return
	}
	if e.watch != nil {
		e.checkWatch(c, "write")
	}
	if e.guarded() {
		old := e.load(c)
		nt, ok1 := v.(*smt.Term)
		ot, ok2 := old.(*smt.Term)
		if ok1 && ok2 && nt.Sort == ot.Sort {
			v = smt.Ite(e.guard, nt, ot)
		} else if !sameValue(v, old) {
			e.unsupported("guarded store of non-scalar %T", v)
		}
	}
	if c.base {
		if e.tolerant {
			c.V = v // building the base heap
			return
		}
		if e.ovl == nil {
			e.ovl = map[*Cell]Value{}
		}
		e.ovl[c] = v
		return
	}
	c.V = v
}

func sameValue(a, b Value) bool {
	switch x := a.(type) {
	case *smt.Term:
		y, ok := b.(*smt.Term)
		return ok && smt.Same(x, y)
	case *Pointer:
		y, ok := b.(*Pointer)
		return ok && x.C == y.C && x.Arr == nil && y.Arr == nil && x.Buf == nil && y.Buf == nil
	}
	return false
}

// ---- path condition & solver -------------------------------------------------

func (e *Exec) assume(c *smt.Term) {
	if e.guarded() {
		c = smt.Implies(e.guard, c)
	}
	if c.IsTrue() {
		return
	}
	if c.IsFalse() {
		panic(pathEnd{"assumption false"})
	}
	e.pc = append(e.pc, c)
}

func (e *Exec) script(extra ...*smt.Term) *smt.Script {
	sc := &smt.Script{Extra: e.extra}
	sc.Asserts = append(sc.Asserts, e.pc...)
	sc.Asserts = append(sc.Asserts, extra...)
	return sc
}

// feasible asks whether pc ∧ c is satisfiable. unknown counts as feasible.
func (e *Exec) feasible(c *smt.Term) bool {
	if c.IsTrue() {
		return true
	}
	if c.IsFalse() {
		return false
	}
	if e.Cfg.Lazy {
		return true
	}
	e.feasQ++
	a := e.Solver.Check(e.script(c), e.Cfg.FeasTimeoutMs)
	if debugFeas {
		fmt.Fprintf(os.Stderr, "feas %s -> %v %dms\n", e.where(), a.Res, a.Millis)
	}
	return a.Res != smt.Unsat
}

// feasibleStrict queries the solver even in lazy mode (used where "maybe" would make the
// path inconclusive).
func (e *Exec) feasibleStrict(c *smt.Term) bool {
	if c.IsTrue() {
		return true
	}
	if c.IsFalse() {
		return false
	}
	e.feasQ++
	a := e.Solver.Check(e.script(c), e.Cfg.FeasTimeoutMs)
	return a.Res != smt.Unsat
}

// choose takes the next decision among n options. check(i) decides feasibility of option i
// (nil => always feasible). The first feasible option is taken; the others are queued
// unchecked (the worker that picks one up checks it when it consumes the decision).
func (e *Exec) choose(n int, check func(i int) bool) int {
	if e.pos < len(e.prefix) {
		d := e.prefix[e.pos]
		e.pos++
		if !d.Checked {
			if check != nil && !check(d.Choice) {
				panic(pathEnd{"infeasible"})
			}
			d.Checked = true
		}
		e.trace = append(e.trace, d)
		return d.Choice
	}
	first := -1
	for i := 0; i < n; i++ {
		if i == n-1 && first < 0 && n > 1 && check != nil && e.Cfg.AssumeLast {
			first = i
			break
		}
		if check == nil || check(i) {
			first = i
			break
		}
	}
	if first < 0 {
		panic(pathEnd{"infeasible"})
	}
	for j := first + 1; j < n; j++ {
		alt := make([]Decision, len(e.trace)+1)
		copy(alt, e.trace)
		alt[len(e.trace)] = Decision{Choice: j, Checked: check == nil}
		e.forks = append(e.forks, alt)
	}
	e.trace = append(e.trace, Decision{Choice: first, Checked: true})
	return first
}

// forkOn forks two ways; the taken side's condition is added to the path condition.
func (e *Exec) forkOn(ct, cf *smt.Term) bool {
	if ct.IsTrue() || cf.IsFalse() {
		return true
	}
	if cf.IsTrue() || ct.IsFalse() {
		return false
	}
	if e.tolerant {
		panic(inconclusive{"symbolic branch during init"})
	}
	if forkStat != nil {
		forkStatMu.Lock()
		forkStat[e.where()]++
		forkStatMu.Unlock()
	}
	ch := e.choose(2, func(i int) bool {
		if i == 0 {
			return e.feasible(ct)
		}
		return e.feasible(cf)
	})
	if ch == 0 {
		e.pc = append(e.pc, ct)
		return true
	}
	e.pc = append(e.pc, cf)
	return false
}

// forkBool forks on a symbolic condition (not allowed under a merge guard).
func (e *Exec) forkBool(c *smt.Term) bool {
	if e.guarded() && !c.IsConst() {
		e.unsupported("fork under merge guard")
	}
	return e.forkOn(c, smt.Not(c))
}

// allocCheck: an allocation sized by a symbolic count must stay within AllocLimit. A witness of
// moderate size (replayable without exhausting memory) is preferred.
func (e *Exec) allocCheck(label string, n *smt.Term) {
	lim := smt.BVC(64, uint64(e.Cfg.AllocLimit))
	ok := smt.BvCmp(smt.OBvSle, n, lim)
	moderate := smt.BvCmp(smt.OBvSle, n, smt.BVC(64, 1<<24))
	if e.feasibleStrict(smt.And(smt.Not(ok), moderate)) {
		e.check("assert", label, smt.Or(ok, smt.Not(moderate)))
		return
	}
	e.check("assert", label, ok)
}

// concretizeMax: case split on a value already known to lie in 0..max.
func (e *Exec) concretizeMax(t *smt.Term, max int) int64 {
	if v, ok := t.ConstS(); ok {
		return v
	}
	ch := e.choose(max+1, func(i int) bool {
		return e.feasible(smt.Eq(t, smt.BVC(t.Sort.W, uint64(i))))
	})
	e.pc = append(e.pc, smt.Eq(t, smt.BVC(t.Sort.W, uint64(ch))))
	return int64(ch)
}

// concretize returns a concrete value for an integer term, forking over feasible values.
func (e *Exec) concretize(t *smt.Term, what string) int64 {
	if v, ok := t.ConstS(); ok {
		return v
	}
	if t.Sort.K != smt.KBV {
		e.unsupported("concretize non-bv %s", what)
	}
	max := smt.UMax(t)
	limit := uint64(e.Cfg.ConcretizeMax)
	if max > limit {
		// try: is the value bounded under pc? ask solver for values one by one (bounded)
		max = limit
		if e.feasible(smt.BvCmp(smt.OBvUlt, smt.BVC(t.Sort.W, limit), t)) {
			e.bound("concretize " + what + ": value may exceed " + fmt.Sprint(limit))
			e.pc = append(e.pc, smt.BvCmp(smt.OBvUle, t, smt.BVC(t.Sort.W, limit)))
		}
	}
	n := int(max) + 1
	ch := e.choose(n, func(i int) bool {
		return e.feasible(smt.Eq(t, smt.BVC(t.Sort.W, uint64(i))))
	})
	e.pc = append(e.pc, smt.Eq(t, smt.BVC(t.Sort.W, uint64(ch))))
	return int64(ch)
}

// ---- obligations ---------------------------------------------------------------

func (e *Exec) inputTerms() []*smt.Term {
	ts := make([]*smt.Term, len(e.inputs))
	for i, in := range e.inputs {
		ts[i] = in.T
	}
	return ts
}

// check discharges "pc ⇒ c". Returns true if it holds (unsat).
func (e *Exec) check(kind, label string, c *smt.Term) bool {
	if e.guarded() {
		c = smt.Implies(e.guard, c)
	}
	ob := Obligation{Label: label, Harness: e.Cfg.Name, Kind: kind, Where: e.where()}
	if c.IsTrue() {
		ob.Verdict = "trivial"
		e.obls = append(e.obls, ob)
		return true
	}
	sc := e.script(smt.Not(c))
	sc.Get = e.inputTerms()
	nIn := len(sc.Get)
	for _, u := range e.ufLog {
		for _, arg := range u.args {
			sc.Get = append(sc.Get, arg...)
		}
		sc.Get = append(sc.Get, u.res)
	}
	a := e.Solver.Check(sc, e.Cfg.TimeoutMs)
	ob.Millis = a.Millis
	switch a.Res {
	case smt.Unsat:
		ob.Verdict = "unsat"
	case smt.Sat:
		ob.Verdict = "sat"
		ob.Model = map[string]string{}
		for i, in := range e.inputs {
			if i < len(a.Values) {
				v := a.Values[i]
				if b, ok := smt.ParseValue(v); ok {
					ob.Model[in.Name] = b.String()
				} else {
					ob.Model[in.Name] = v
				}
			}
		}
		k := nIn
		val := func() *big.Int {
			if k >= len(a.Values) {
				return new(big.Int)
			}
			v := a.Values[k]
			k++
			if b, ok := smt.ParseValue(v); ok {
				return b
			}
			return new(big.Int)
		}
		for _, u := range e.ufLog {
			rec := UFRec{Name: u.name}
			for _, arg := range u.args {
				hx := ""
				for range arg {
					hx += fmt.Sprintf("%02x", val().Uint64()&0xff)
				}
				rec.Args = append(rec.Args, hx)
			}
			rec.Val = val().String()
			ob.UF = append(ob.UF, rec)
		}
		ob.Trace = append([]Decision(nil), e.trace...)
	default:
		ob.Verdict = "unknown"
		ob.Note = a.Err
	}
	e.obls = append(e.obls, ob)
	return a.Res == smt.Unsat
}

func (e *Exec) bound(msg string) {
	e.obls = append(e.obls, Obligation{Label: msg, Harness: e.Cfg.Name, Kind: "bound", Verdict: "bound-exceeded", Where: e.where(), Trace: append([]Decision(nil), e.trace...)})
}

// panicCheck: ok is the condition under which no panic occurs.
func (e *Exec) panicCheck(what string, ok *smt.Term) {
	if ok.IsTrue() {
		return
	}
	if e.tolerant {
		if ok.IsFalse() {
			panic(goPanic{msg: what})
		}
		return
	}
	label := "panic:" + what + "@" + e.frame.fn.Name()
	if ok.IsFalse() && !e.guarded() {
		// definite panic on this path
		e.raisePanic(what)
	}
	if e.Cfg.PanicsAllowed {
		// fork: the panicking side unwinds as a Go panic
		bad := smt.Not(ok)
		good := ok
		if e.guarded() {
			bad = smt.And(e.guard, bad)
			good = smt.Implies(e.guard, ok)
		}
		if e.forkOn(good, bad) {
			return
		}
		e.guard = nil
		panic(goPanic{msg: what})
	}
	if e.Cfg.BatchPanics && !ok.IsFalse() {
		c := ok
		if e.guarded() {
			c = smt.Implies(e.guard, ok)
		}
		if c.IsTrue() {
			return
		}
		e.pending = append(e.pending, pendingPanic{label: label, ok: c, where: e.where(), pcIndex: len(e.pc)})
		e.pc = append(e.pc, c)
		if len(e.pending) >= 64 {
			e.flushPanics()
		}
		return
	}
	if !e.check("panic", label, ok) {
		// reported; continue on the non-panicking side
	}
	e.assume(ok)
}

type pendingPanic struct {
	label   string
	ok      *smt.Term
	where   string
	pcIndex int
}

// flushPanics discharges all pending implicit panic checks of this path in one query:
// (pc without the assumed checks) ∧ ¬(ok_1 ∧ … ∧ ok_n) must be unsatisfiable.
func (e *Exec) flushPanics() {
	if len(e.pending) == 0 {
		return
	}
	pend := e.pending
	e.pending = nil
	skip := map[int]bool{}
	var oks []*smt.Term
	for _, p := range pend {
		skip[p.pcIndex] = true
		oks = append(oks, p.ok)
	}
	sc := &smt.Script{Extra: e.extra}
	for i, c := range e.pc {
		if !skip[i] {
			sc.Asserts = append(sc.Asserts, c)
		}
	}
	sc.Asserts = append(sc.Asserts, smt.Not(smt.And(oks...)))
	sc.Get = e.inputTerms()
	a := e.Solver.Check(sc, e.Cfg.TimeoutMs)
	ob := Obligation{Label: fmt.Sprintf("panic-batch(%d checks, first: %s)", len(pend), pend[0].label), Harness: e.Cfg.Name, Kind: "panic", Where: pend[0].where, Millis: a.Millis}
	switch a.Res {
	case smt.Unsat:
		ob.Verdict = "unsat"
		e.obls = append(e.obls, ob)
	case smt.Sat:
		// find which check fails: re-check individually in path order (earlier ones assumed)
		for k, p := range pend {
			sc2 := &smt.Script{Extra: e.extra}
			for i, c := range e.pc {
				if i < p.pcIndex {
					sc2.Asserts = append(sc2.Asserts, c)
				}
			}
			sc2.Asserts = append(sc2.Asserts, smt.Not(p.ok))
			sc2.Get = e.inputTerms()
			a2 := e.Solver.Check(sc2, e.Cfg.TimeoutMs)
			if a2.Res == smt.Unsat {
				continue
			}
			o := Obligation{Label: p.label, Harness: e.Cfg.Name, Kind: "panic", Where: p.where, Millis: a2.Millis, Trace: append([]Decision(nil), e.trace...)}
			if a2.Res == smt.Sat {
				o.Verdict = "sat"
				o.Model = map[string]string{}
				for i, in := range e.inputs {
					if i < len(a2.Values) {
						if b, ok := smt.ParseValue(a2.Values[i]); ok {
							o.Model[in.Name] = b.String()
						}
					}
				}
			} else {
				o.Verdict = "unknown"
				o.Note = a2.Err
			}
			e.obls = append(e.obls, o)
			_ = k
			break
		}
	default:
		ob.Verdict = "unknown"
		ob.Note = a.Err
		e.obls = append(e.obls, ob)
	}
}

func (e *Exec) raisePanic(what string) {
	if e.Cfg.PanicsAllowed || e.tolerant {
		panic(goPanic{msg: what})
	}
	label := "panic:" + what + "@" + e.frame.fn.Name()
	e.check("panic", label, smt.False)
	panic(pathEnd{"panic: " + what})
}

// ---- operand evaluation ----------------------------------------------------------

func (e *Exec) constValue(c *ssa.Const) Value {
	t := c.Type()
	if c.Value == nil {
		return zeroValue(t)
	}
	if w, _, ok := intWidth(t); ok {
		if i, exact := constant.Int64Val(constant.ToInt(c.Value)); exact {
			return smt.BVC(w, uint64(i))
		}
		u, _ := constant.Uint64Val(constant.ToInt(c.Value))
		return smt.BVC(w, u)
	}
	if isBool(t) {
		return smt.BoolC(constant.BoolVal(c.Value))
	}
	if isFloat(t) {
		f, _ := constant.Float64Val(c.Value)
		if b, ok := t.Underlying().(*types.Basic); ok && b.Kind() == types.Float32 {
			f = float64(float32(f))
		}
		return smt.FPC(math.Float64bits(f))
	}
	if isString(t) {
		s := constant.StringVal(c.Value)
		return strConst(s)
	}
	if _, ok := t.Underlying().(*types.Basic); ok {
		return &Opaque{"const " + t.String()}
	}
	return zeroValue(t)
}

func strConst(s string) *Str {
	st := &Str{B: make([]*smt.Term, len(s))}
	for i := 0; i < len(s); i++ {
		st.B[i] = byteConst(s[i])
	}
	return st
}

var byteConsts [256]*smt.Term

func init() {
	for i := range byteConsts {
		byteConsts[i] = smt.BVC(8, uint64(i))
	}
}

func byteConst(b byte) *smt.Term { return byteConsts[b] }

func (e *Exec) get(fr *Frame, v ssa.Value) Value {
	switch x := v.(type) {
	case *ssa.Const:
		return e.constValue(x)
	case *ssa.Global:
		return &Pointer{C: e.P.globalCell(x)}
	case *ssa.Function:
		return &Closure{Fn: x}
	case *ssa.Builtin:
		return &Closure{Bi: x}
	}
	if val, ok := fr.vals[v]; ok {
		return val
	}
	e.unsupported("undefined ssa value %s", v.Name())
	return nil
}

func (e *Exec) term(fr *Frame, v ssa.Value) *smt.Term {
	x := e.get(fr, v)
	t, ok := x.(*smt.Term)
	if !ok {
		if op, isOp := x.(*Opaque); isOp {
			e.unsupported("use of opaque value (%s)", op.Why)
		}
		e.unsupported("expected scalar, got %T for %s", x, v.Name())
	}
	return t
}

// ---- calls -------------------------------------------------------------------------

const maxDepth = 200

func (e *Exec) callFunction(fn *ssa.Function, args []Value) (result Value) {
	if e.tolerant {
		if fn.Name() == "init" && fn.Signature.Recv() == nil && fn.Signature.Params().Len() == 0 && e.frame != nil && fn.Pkg != e.frame.fn.Pkg {
			return nil // other packages' initialisers are scheduled by the loader
		}
		defer func() {
			if r := recover(); r != nil {
				switch x := r.(type) {
				case inconclusive:
					result = &Opaque{x.why}
				case goPanic:
					result = &Opaque{"panic: " + x.msg}
				default:
					panic(r)
				}
			}
		}()
	}
	if r, ok := e.intrinsic(fn, args); ok {
		return r
	}
	if fn.Blocks == nil {
		if e.tolerant {
			return &Opaque{"external " + fn.String()}
		}
		e.unsupported("call to external function %s", fn.String())
	}
	if e.depth > maxDepth {
		e.unsupported("call depth exceeded")
	}
	if e.funcs != nil {
		e.funcs[fn.String()] = true
	}
	fr := &Frame{fn: fn, vals: make(map[ssa.Value]Value, 32), visits: map[*ssa.BasicBlock]int{}, parent: e.frame}
	for i, p := range fn.Params {
		fr.vals[p] = args[i]
	}
	saved := e.frame
	e.frame = fr
	e.depth++
	defer func() { e.frame = saved; e.depth-- }()
	return e.run(fr)
}

func (e *Exec) callClosure(c *Closure, args []Value) Value {
	if c.Fn == nil {
		e.raisePanic("call of nil func")
	}
	if len(c.Bind) == 0 {
		return e.callFunction(c.Fn, args)
	}
	// free variables
	if r, ok := e.intrinsic(c.Fn, args); ok {
		return r
	}
	fn := c.Fn
	fr := &Frame{fn: fn, vals: make(map[ssa.Value]Value, 32), visits: map[*ssa.BasicBlock]int{}, parent: e.frame}
	for i, p := range fn.Params {
		fr.vals[p] = args[i]
	}
	for i, fv := range fn.FreeVars {
		fr.vals[fv] = c.Bind[i]
	}
	if e.funcs != nil {
		e.funcs[fn.String()] = true
	}
	saved := e.frame
	e.frame = fr
	e.depth++
	defer func() { e.frame = saved; e.depth-- }()
	return e.run(fr)
}

func (e *Exec) doCall(fr *Frame, cc *ssa.CallCommon) Value {
	args := make([]Value, 0, len(cc.Args)+1)
	if cc.IsInvoke() {
		recv := e.get(fr, cc.Value)
		ifc, ok := recv.(*Iface)
		if !ok {
			if op, isOp := recv.(*Opaque); isOp {
				if e.tolerant {
					return &Opaque{op.Why}
				}
				e.unsupported("invoke on opaque (%s)", op.Why)
			}
			e.unsupported("invoke on %T", recv)
		}
		if ifc.T == nil {
			e.raisePanic("nil interface method call " + cc.Method.Name())
		}
		fn := e.P.lookupMethod(ifc.T, cc.Method)
		if fn == nil {
			e.unsupported("method %s not found on %v", cc.Method.Name(), ifc.T)
		}
		args = append(args, ifc.V)
		for _, a := range cc.Args {
			args = append(args, e.get(fr, a))
		}
		return e.callFunction(fn, args)
	}
	for _, a := range cc.Args {
		args = append(args, e.get(fr, a))
	}
	switch callee := cc.Value.(type) {
	case *ssa.Function:
		return e.callFunction(callee, args)
	case *ssa.Builtin:
		return e.builtin(fr, callee, args, cc)
	}
	cv := e.get(fr, cc.Value)
	switch c := cv.(type) {
	case *Closure:
		if c.Bi != nil {
			return e.builtin(fr, c.Bi, args, cc)
		}
		return e.callClosure(c, args)
	case *Opaque:
		if e.tolerant {
			return &Opaque{c.Why}
		}
	}
	e.unsupported("call of %T", cv)
	return nil
}

// run interprets a function body.
func (e *Exec) run(fr *Frame) (ret Value) {
	fn := fr.fn
	block := fn.Blocks[0]
	fr.prev = nil
	defer func() {
		if r := recover(); r != nil {
			if gp, ok := r.(goPanic); ok && fn.Recover != nil {
				// run deferred calls; a recover() inside them stops the panic
				if e.runDefersOnPanic(fr, gp) {
					// resume at recover block: returns named results
					ret = e.runFrom(fr, fn.Recover)
					return
				}
			} else if ok && len(fr.defers) > 0 {
				e.runDefersOnPanic(fr, gp)
			}
			panic(r)
		}
	}()
	return e.runFrom(fr, block)
}

type edgeIn struct {
	pred  *ssa.BasicBlock
	guard *smt.Term
}

func (e *Exec) runFrom(fr *Frame, block *ssa.BasicBlock) Value {
	var merged []edgeIn // non-nil when entering block from a merged region
	for {
		fr.visits[block]++
		if fr.visits[block] > e.Cfg.MaxLoop {
			if e.tolerant {
				panic(inconclusive{"loop bound in init"})
			}
			e.bound(fmt.Sprintf("unwinding assertion: block %s of %s visited > %d", block, fr.fn.Name(), e.Cfg.MaxLoop))
			panic(pathEnd{"loop bound"})
		}
		// phis
		i := 0
		var phiVals []Value
		for ; i < len(block.Instrs); i++ {
			phi, ok := block.Instrs[i].(*ssa.Phi)
			if !ok {
				break
			}
			if merged != nil {
				phiVals = append(phiVals, e.mergePhi(fr, phi, block, merged))
			} else {
				idx := -1
				for k, p := range block.Preds {
					if p == fr.prev {
						idx = k
						break
					}
				}
				if idx < 0 {
					e.unsupported("phi without matching pred")
				}
				phiVals = append(phiVals, e.get(fr, phi.Edges[idx]))
			}
		}
		for k := 0; k < i; k++ {
			fr.vals[block.Instrs[k].(*ssa.Phi)] = phiVals[k]
		}
		merged = nil
		var next *ssa.BasicBlock
		exited := false
		for ; i < len(block.Instrs); i++ {
			ins := block.Instrs[i]
			fr.cur = ins
			e.steps++
			e.Instrs++
			if e.steps > e.Cfg.MaxSteps {
				e.bound(fmt.Sprintf("step bound %d exceeded", e.Cfg.MaxSteps))
				panic(pathEnd{"step bound"})
			}
			switch x := ins.(type) {
			case *ssa.Jump:
				next = block.Succs[0]
			case *ssa.If:
				cond := e.term(fr, x.Cond)
				if cond.IsTrue() {
					next = block.Succs[0]
				} else if cond.IsFalse() {
					next = block.Succs[1]
				} else if rg := e.P.region(block); rg != nil && !e.tolerant && !e.Cfg.NoMerge {
					nb, edges := e.execRegion(fr, block, rg, cond)
					if edges == nil {
						// left the region through an exit block
						fr.prev = nb.pred
						next = nb.block
						exited = true
					} else {
						merged = edges
						next = rg.join
					}
				} else if e.forkBool(cond) {
					next = block.Succs[0]
				} else {
					next = block.Succs[1]
				}
			case *ssa.Return:
				var rv Value
				switch len(x.Results) {
				case 0:
					rv = nil
				case 1:
					rv = e.get(fr, x.Results[0])
				default:
					tp := make(Tuple, len(x.Results))
					for k, r := range x.Results {
						tp[k] = e.get(fr, r)
					}
					rv = tp
				}
				return rv
			case *ssa.Panic:
				v := e.get(fr, x.X)
				msg := "explicit panic"
				if ifc, ok := v.(*Iface); ok {
					if s, ok := ifc.V.(*Str); ok {
						msg = "panic(" + e.strText(s) + ")"
					}
				}
				if e.Cfg.PanicsAllowed || e.tolerant {
					panic(goPanic{msg: msg, val: v})
				}
				e.raisePanic(msg)
			default:
				if e.tolerant {
					e.instrTolerant(fr, ins)
				} else {
					e.instr(fr, ins)
				}
			}
		}
		if next == nil {
			e.unsupported("block without terminator")
		}
		if !exited {
			fr.prev = block
		}
		block = next
	}
}

func (e *Exec) strText(s *Str) string {
	b := make([]byte, len(s.B))
	for i, t := range s.B {
		if v, ok := t.ConstU(); ok {
			b[i] = byte(v)
		} else {
			b[i] = '?'
		}
	}
	return string(b)
}

// runDefersOnPanic runs the frame's deferred calls after a panic. Returns true if recovered.
func (e *Exec) runDefersOnPanic(fr *Frame, gp goPanic) bool {
	recovered := false
	saved := e.frame
	e.frame = fr
	defer func() { e.frame = saved }()
	for len(fr.defers) > 0 {
		n := len(fr.defers) - 1
		d := fr.defers[n]
		args := fr.dvals[n]
		fr.defers = fr.defers[:n]
		fr.dvals = fr.dvals[:n]
		e.ghostSet("panicking", &Iface{T: types.Typ[types.String], V: strConst(gp.msg)})
		e.invokeDeferred(fr, d, args)
		if e.ghost["panicking"] == nil {
			recovered = true
		}
	}
	delete(e.ghost, "panicking")
	return recovered
}

func (e *Exec) ghostSet(k string, v Value) {
	if e.ghost == nil {
		e.ghost = map[string]Value{}
	}
	e.ghost[k] = v
}

func (e *Exec) invokeDeferred(fr *Frame, d *ssa.Defer, args []Value) {
	cc := &d.Call
	if cc.IsInvoke() {
		ifc := args[0].(*Iface)
		if ifc.T == nil {
			e.raisePanic("nil interface in defer")
		}
		fn := e.P.lookupMethod(ifc.T, cc.Method)
		a := append([]Value{ifc.V}, args[1:]...)
		e.callFunction(fn, a)
		return
	}
	switch c := args[0].(type) {
	case *Closure:
		if c.Bi != nil {
			e.builtin(fr, c.Bi, args[1:], cc)
			return
		}
		e.callClosure(c, args[1:])
	default:
		e.unsupported("defer of %T", c)
	}
}

func (e *Exec) instrTolerant(fr *Frame, ins ssa.Instruction) {
	defer func() {
		if r := recover(); r != nil {
			switch x := r.(type) {
			case inconclusive:
				if v, ok := ins.(ssa.Value); ok {
					fr.vals[v] = &Opaque{x.why}
				}
			case goPanic:
				if v, ok := ins.(ssa.Value); ok {
					fr.vals[v] = &Opaque{"panic: " + x.msg}
				}
			default:
				panic(r)
			}
		}
	}()
	e.instr(fr, ins)
}

// instr executes one non-terminator instruction.
func (e *Exec) instr(fr *Frame, ins ssa.Instruction) {
	switch x := ins.(type) {
	case *ssa.DebugRef:
	case *ssa.Alloc:
		t := x.Type().Underlying().(*types.Pointer).Elem()
		fr.vals[x] = &Pointer{C: newCell(zeroValue(t))}
	case *ssa.BinOp:
		fr.vals[x] = e.binop(x.Op, e.get(fr, x.X), e.get(fr, x.Y), x.X.Type(), x.Y.Type())
	case *ssa.UnOp:
		fr.vals[x] = e.unop(fr, x)
	case *ssa.Call:
		r := e.doCall(fr, &x.Call)
		fr.cur = ins
		fr.vals[x] = r
	case *ssa.ChangeType:
		fr.vals[x] = e.get(fr, x.X)
	case *ssa.ChangeInterface:
		fr.vals[x] = e.get(fr, x.X)
	case *ssa.Convert:
		fr.vals[x] = e.convert(e.get(fr, x.X), x.X.Type(), x.Type())
	case *ssa.MakeInterface:
		fr.vals[x] = &Iface{T: x.X.Type(), V: e.get(fr, x.X)}
	case *ssa.Extract:
		tv := e.get(fr, x.Tuple)
		switch tp := tv.(type) {
		case Tuple:
			fr.vals[x] = tp[x.Index]
		case *Opaque:
			fr.vals[x] = tp
		default:
			e.unsupported("extract from %T", tv)
		}
	case *ssa.Field:
		av := e.get(fr, x.X)
		switch a := av.(type) {
		case *Agg:
			fr.vals[x] = a.E[x.Field]
		case *Opaque:
			fr.vals[x] = a
		default:
			e.unsupported("field of %T", av)
		}
	case *ssa.FieldAddr:
		pv := e.get(fr, x.X)
		p, ok := pv.(*Pointer)
		if !ok {
			if op, isOp := pv.(*Opaque); isOp && e.tolerant {
				fr.vals[x] = op
				return
			}
			e.unsupported("fieldaddr of %T", pv)
		}
		if isNilPtr(p) {
			e.raisePanic("nil pointer dereference")
		}
		if p.C == nil || p.C.Sub == nil {
			e.unsupported("fieldaddr on non-aggregate/symbolic pointer")
		}
		fr.vals[x] = &Pointer{C: p.C.Sub[x.Field]}
	case *ssa.IndexAddr:
		fr.vals[x] = e.indexAddr(fr, x)
	case *ssa.Index:
		fr.vals[x] = e.index(fr, x)
	case *ssa.Store:
		pv := e.get(fr, x.Addr)
		p, ok := pv.(*Pointer)
		if !ok {
			if _, isOp := pv.(*Opaque); isOp && e.tolerant {
				return
			}
			e.unsupported("store to %T", pv)
		}
		e.storePtr(p, e.get(fr, x.Val))
	case *ssa.Slice:
		fr.vals[x] = e.sliceOp(fr, x)
	case *ssa.MakeSlice:
		et0 := x.Type().Underlying().(*types.Slice).Elem()
		if lt := e.toIdx64(e.term(fr, x.Len), x.Len.Type()); !lt.IsConst() && x.Len == x.Cap {
			if b, ok := et0.Underlying().(*types.Basic); ok && b.Kind() == types.Uint8 && e.Cfg.SymbolicMake {
				// make([]byte, n) with symbolic n: a zero-filled symbolic-length buffer
				lim := smt.BVC(64, uint64(e.Cfg.MaxAlloc))
				e.panicCheck("makeslice: len out of range", smt.BvCmp(smt.OBvSle, smt.BVC(64, 0), lt))
				if e.feasible(smt.BvCmp(smt.OBvUlt, lim, lt)) {
					e.bound("allocation length may exceed MaxAlloc")
					e.assume(smt.BvCmp(smt.OBvUle, lt, lim))
				}
				fr.vals[x] = &Slice{Buf: &SymBuf{Arr: smt.ConstArr(0), Len: lt}}
				return
			}
		}
		if lt := e.toIdx64(e.term(fr, x.Len), x.Len.Type()); !lt.IsConst() && e.Cfg.AllocLimit > 0 {
			e.allocCheck("alloc:slice-length@"+fr.fn.Name(), lt)
			e.assume(smt.BvCmp(smt.OBvSle, lt, smt.BVC(64, uint64(e.Cfg.AllocLimit))))
		}
		n := int(e.concretize(e.term(fr, x.Len), "make len"))
		c := int(e.concretize(e.term(fr, x.Cap), "make cap"))
		if n < 0 || c < n {
			e.raisePanic("makeslice: len out of range")
		}
		if e.Cfg.AllocLimit > 0 && c > e.Cfg.AllocLimit && !e.tolerant {
			// an allocation far larger than the (tiny) harness input: sized by a count the input claims
			e.check("assert", "alloc:slice-capacity@"+fr.fn.Name(), smt.False)
			panic(pathEnd{"alloc limit"})
		}
		if c > e.Cfg.MaxAlloc {
			e.bound(fmt.Sprintf("allocation of %d elements exceeds MaxAlloc", c))
			panic(pathEnd{"alloc bound"})
		}
		et := x.Type().Underlying().(*types.Slice).Elem()
		fr.vals[x] = &Slice{Back: newCells(c, func(int) Value { return zeroValue(et) }), Len: n, Cap: c}
	case *ssa.MakeMap:
		if x.Reserve != nil {
			rt := e.toIdx64(e.term(fr, x.Reserve), x.Reserve.Type())
			if !rt.IsConst() && e.Cfg.AllocLimit > 0 {
				// allocation sized by a symbolic count: must stay within the harness's budget
				e.allocCheck("alloc:map-size-hint@"+fr.fn.Name(), rt)
			}
		}
		fr.vals[x] = &Map{M: &MapObj{}}
	case *ssa.MapUpdate:
		e.mapUpdate(e.get(fr, x.Map), e.get(fr, x.Key), e.get(fr, x.Value))
	case *ssa.Lookup:
		fr.vals[x] = e.lookup(fr, x)
	case *ssa.MakeClosure:
		c := &Closure{Fn: x.Fn.(*ssa.Function)}
		for _, b := range x.Bindings {
			c.Bind = append(c.Bind, e.get(fr, b))
		}
		fr.vals[x] = c
	case *ssa.TypeAssert:
		fr.vals[x] = e.typeAssert(fr, x)
	case *ssa.Range:
		v := e.get(fr, x.X)
		switch m := v.(type) {
		case *Map:
			it := &MapIter{}
			if m.M != nil {
				it.M = m.M
				it.Keys = append([]Value(nil), e.mapRead(m.M).Keys...)
			}
			fr.vals[x] = it
		case *Str:
			fr.vals[x] = &MapIter{S: m}
		default:
			e.unsupported("range over %T", v)
		}
	case *ssa.Next:
		fr.vals[x] = e.next(fr, x)
	case *ssa.Defer:
		var args []Value
		if x.Call.IsInvoke() {
			args = append(args, e.get(fr, x.Call.Value))
		} else {
			args = append(args, e.get(fr, x.Call.Value))
		}
		for _, a := range x.Call.Args {
			args = append(args, e.get(fr, a))
		}
		fr.defers = append(fr.defers, x)
		fr.dvals = append(fr.dvals, args)
	case *ssa.RunDefers:
		for len(fr.defers) > 0 {
			n := len(fr.defers) - 1
			d, args := fr.defers[n], fr.dvals[n]
			fr.defers, fr.dvals = fr.defers[:n], fr.dvals[:n]
			e.invokeDeferred(fr, d, args)
		}
	case *ssa.SliceToArrayPointer:
		sv := e.get(fr, x.X).(*Slice)
		n := int(x.Type().Underlying().(*types.Pointer).Elem().Underlying().(*types.Array).Len())
		if sv.Len < n {
			e.raisePanic("slice to array pointer: length mismatch")
		}
		if sv.Nil && n == 0 {
			fr.vals[x] = &Pointer{}
			return
		}
		fr.vals[x] = &Pointer{C: &Cell{Sub: sv.Back[sv.Off : sv.Off+n : sv.Off+n]}}
	case *ssa.Select:
		if x.Blocking {
			e.unsupported("blocking select")
		}
		// non-blocking select: the default case is always a possible outcome; channels are not
		// modelled, so it is the outcome taken
		tp := Tuple{smt.BVC(64, ^uint64(0)), smt.False}
		for _, st := range x.States {
			if st.Dir == types.RecvOnly {
				tp = append(tp, zeroValue(st.Chan.Type().Underlying().(*types.Chan).Elem()))
			}
		}
		fr.vals[x] = tp
	case *ssa.MakeChan:
		fr.vals[x] = &Opaque{"chan"}
	case *ssa.Go:
		e.unsupported("go statement")
	default:
		e.unsupported("instruction %T", ins)
	}
}

func (e *Exec) storePtr(p *Pointer, v Value) {
	switch {
	case p.C != nil:
		e.store(p.C, v)
	case p.Arr != nil:
		t, ok := v.(*smt.Term)
		if !ok {
			e.unsupported("symbolic-index store of %T", v)
		}
		for k, c := range p.Arr {
			old, ok := e.load(c).(*smt.Term)
			if !ok {
				e.unsupported("symbolic-index store over non-scalar")
			}
			hit := smt.Eq(p.Idx, smt.BVC(p.Idx.Sort.W, uint64(k)))
			nv := smt.Ite(hit, t, old)
			sg := e.guard
			e.guard = nil
			if sg != nil && !sg.IsTrue() {
				nv = smt.Ite(smt.And(sg, hit), t, old)
			}
			e.store(c, nv)
			e.guard = sg
		}
	case p.Buf != nil:
		if e.watchBuf != nil {
			e.checkWatchBuf(p.Buf, "write")
		}
		t := v.(*smt.Term)
		na := smt.Store(p.Buf.Arr, p.BufIdx, t)
		if e.guarded() {
			// conditional store
			na = smt.Store(p.Buf.Arr, p.BufIdx, smt.Ite(e.guard, t, smt.Select(p.Buf.Arr, p.BufIdx)))
		}
		p.Buf.Arr = na
	default:
		e.raisePanic("nil pointer dereference (store)")
	}
}

func (e *Exec) loadPtr(p *Pointer) Value {
	switch {
	case p.C != nil:
		return e.load(p.C)
	case p.Arr != nil:
		return e.selectCells(p.Arr, p.Idx)
	case p.Buf != nil:
		if e.watchBuf != nil {
			e.checkWatchBuf(p.Buf, "read")
		}
		return smt.Select(p.Buf.Arr, p.BufIdx)
	}
	e.raisePanic("nil pointer dereference")
	return nil
}

// selectCells reads cells[idx] for a symbolic idx (already known in range).
func (e *Exec) selectCells(cells []*Cell, idx *smt.Term) Value {
	if len(cells) == 0 {
		e.unsupported("select from empty")
	}
	vals := make([]*smt.Term, len(cells))
	allConst := true
	for i, c := range cells {
		t, ok := e.load(c).(*smt.Term)
		if !ok {
			e.unsupported("symbolic index over non-scalar elements")
		}
		vals[i] = t
		if !t.IsConst() || t.Sort.K != smt.KBV || t.Sort.W > 64 {
			allConst = false
		}
	}
	if idx.Sort.K == smt.KInt {
		return e.intTableLookup(vals, idx)
	}
	return selectTerms(vals, idx, allConst)
}

func selectTerms(vals []*smt.Term, idx *smt.Term, allConst bool) *smt.Term {
	if allConst {
		core := idx
		for core.Op == smt.OZext {
			core = core.Args[0]
		}
		ok := core.Sort.W <= 12 || core.Op == smt.OTable
		if ok {
			tab := make([]uint64, len(vals))
			for i, v := range vals {
				tab[i] = v.Val
			}
			return smt.Table(tab, vals[0].Sort.W, idx)
		}
	}
	r := vals[len(vals)-1]
	for i := len(vals) - 2; i >= 0; i-- {
		r = smt.Ite(smt.Eq(idx, smt.BVC(idx.Sort.W, uint64(i))), vals[i], r)
	}
	return r
}

func (e *Exec) toIdx64(t *smt.Term, typ types.Type) *smt.Term {
	if t.Sort.K == smt.KInt {
		return t
	}
	w, signed, _ := intWidth(typ)
	if w == 64 {
		return t
	}
	if signed {
		return smt.SExt(t, 64)
	}
	return smt.ZExt(t, 64)
}

// inRange: 0 <= idx < n as a term (idx BV64 signed).
func inRange(idx *smt.Term, n int) *smt.Term {
	if idx.Sort.K == smt.KInt {
		return smt.And(smt.IntCmp(smt.OIntLe, smt.IntC(0), idx), smt.IntCmp(smt.OIntLt, idx, smt.IntC(int64(n))))
	}
	return smt.BvCmp(smt.OBvUlt, idx, smt.BVC(64, uint64(n)))
}

func (e *Exec) indexAddr(fr *Frame, x *ssa.IndexAddr) Value {
	base := e.get(fr, x.X)
	idx := e.toIdx64(e.term(fr, x.Index), x.Index.Type())
	var cells []*Cell
	switch b := base.(type) {
	case *Slice:
		if b.Buf != nil {
			e.panicCheck("index out of range", smt.BvCmp(smt.OBvUlt, idx, b.Buf.Len))
			return &Pointer{Buf: b.Buf, BufIdx: smt.Extract(idx, 31, 0)}
		}
		cells = b.Back[b.Off : b.Off+b.Len]
	case *Pointer:
		if isNilPtr(b) {
			e.raisePanic("nil pointer dereference")
		}
		if b.C == nil || b.C.Sub == nil {
			e.unsupported("indexaddr on non-array pointer")
		}
		cells = b.C.Sub
	case *Opaque:
		if e.tolerant {
			return b
		}
		e.unsupported("indexaddr on opaque (%s)", b.Why)
	default:
		e.unsupported("indexaddr on %T", base)
	}
	if iv, ok := constIdx(idx); ok {
		if iv < 0 || int(iv) >= len(cells) {
			e.raisePanic(fmt.Sprintf("index out of range [%d] with length %d", iv, len(cells)))
		}
		return &Pointer{C: cells[iv]}
	}
	e.panicCheck("index out of range", inRange(idx, len(cells)))
	if len(cells) == 1 {
		return &Pointer{C: cells[0]}
	}
	if idx.Sort.K == smt.KInt {
		return &Pointer{Arr: cells, Idx: idx}
	}
	if len(cells) > 0 && cells[0].Sub == nil {
		if _, scalar := e.load(cells[0]).(*smt.Term); !scalar {
			// elements are pointers/slices/...: case split on the index
			k := e.concretizeMax(idx, len(cells)-1)
			return &Pointer{C: cells[k]}
		}
	} else if len(cells) > 0 {
		k := e.concretizeMax(idx, len(cells)-1)
		return &Pointer{C: cells[k]}
	}
	return &Pointer{Arr: cells, Idx: idx}
}

func (e *Exec) index(fr *Frame, x *ssa.Index) Value {
	base := e.get(fr, x.X)
	idx := e.toIdx64(e.term(fr, x.Index), x.Index.Type())
	switch b := base.(type) {
	case *Agg:
		return e.indexVals(b.E, idx)
	case *Str:
		vals := make([]Value, len(b.B))
		for i, t := range b.B {
			vals[i] = t
		}
		return e.indexVals(vals, idx)
	case *Opaque:
		return b
	}
	e.unsupported("index of %T", base)
	return nil
}

func constIdx(idx *smt.Term) (int64, bool) {
	if idx.Sort.K == smt.KInt {
		if idx.Op == smt.OConst && idx.Big.IsInt64() {
			return idx.Big.Int64(), true
		}
		return 0, false
	}
	return idx.ConstS()
}

func (e *Exec) indexVals(vals []Value, idx *smt.Term) Value {
	if iv, ok := constIdx(idx); ok {
		if iv < 0 || int(iv) >= len(vals) {
			e.raisePanic(fmt.Sprintf("index out of range [%d] with length %d", iv, len(vals)))
		}
		return vals[iv]
	}
	e.panicCheck("index out of range", inRange(idx, len(vals)))
	ts := make([]*smt.Term, len(vals))
	allConst := true
	for i, v := range vals {
		t, ok := v.(*smt.Term)
		if !ok {
			e.unsupported("symbolic index over non-scalar values")
		}
		ts[i] = t
		if !t.IsConst() || t.Sort.K != smt.KBV || t.Sort.W > 64 {
			allConst = false
		}
	}
	if idx.Sort.K == smt.KInt {
		return e.intTableLookup(ts, idx)
	}
	return selectTerms(ts, idx, allConst)
}

func (e *Exec) sliceOp(fr *Frame, x *ssa.Slice) Value {
	base := e.get(fr, x.X)
	getI := func(v ssa.Value, def int) int {
		if v == nil {
			return def
		}
		t := e.toIdx64(e.term(fr, v), v.Type())
		if c, ok := t.ConstS(); ok {
			return int(c)
		}
		return int(e.concretize(t, "slice bound"))
	}
	switch b := base.(type) {
	case *Str:
		lo := getI(x.Low, 0)
		hi := getI(x.High, len(b.B))
		if lo < 0 || hi < lo || hi > len(b.B) {
			e.raisePanic(fmt.Sprintf("slice bounds out of range [%d:%d] with length %d", lo, hi, len(b.B)))
		}
		return &Str{B: b.B[lo:hi:hi]}
	case *Slice:
		if b.Buf != nil {
			e.unsupported("slicing a symbolic buffer")
		}
		lo := getI(x.Low, 0)
		hi := getI(x.High, b.Len)
		mx := getI(x.Max, b.Cap)
		if lo < 0 || hi < lo || mx < hi || mx > b.Cap {
			e.raisePanic(fmt.Sprintf("slice bounds out of range [%d:%d:%d] with capacity %d", lo, hi, mx, b.Cap))
		}
		if b.Nil && hi == 0 {
			return &Slice{Nil: true}
		}
		return &Slice{Back: b.Back, Off: b.Off + lo, Len: hi - lo, Cap: mx - lo}
	case *Pointer:
		if isNilPtr(b) {
			e.raisePanic("nil pointer dereference (slice of nil array pointer)")
		}
		if b.C == nil || b.C.Sub == nil {
			e.unsupported("slice of non-array pointer")
		}
		n := len(b.C.Sub)
		lo := getI(x.Low, 0)
		hi := getI(x.High, n)
		mx := getI(x.Max, n)
		if lo < 0 || hi < lo || mx < hi || mx > n {
			e.raisePanic(fmt.Sprintf("slice bounds out of range [%d:%d:%d] with capacity %d", lo, hi, mx, n))
		}
		return &Slice{Back: b.C.Sub, Off: lo, Len: hi - lo, Cap: mx - lo}
	case *Opaque:
		if e.tolerant {
			return b
		}
	}
	e.unsupported("slice of %T", base)
	return nil
}

func (e *Exec) unop(fr *Frame, x *ssa.UnOp) Value {
	v := e.get(fr, x.X)
	switch x.Op {
	case token.MUL:
		p, ok := v.(*Pointer)
		if !ok {
			if op, isOp := v.(*Opaque); isOp {
				if e.tolerant {
					return op
				}
				e.unsupported("deref of opaque (%s)", op.Why)
			}
			e.unsupported("deref of %T", v)
		}
		return e.loadPtr(p)
	case token.NOT:
		t, ok := v.(*smt.Term)
		if !ok {
			e.unsupported("! of %T", v)
		}
		return smt.Not(t)
	case token.SUB:
		t, ok := v.(*smt.Term)
		if !ok {
			e.unsupported("neg of %T", v)
		}
		if t.Sort.K == smt.KFP {
			return smt.Fp(smt.OFpNeg, smt.FP64, t)
		}
		if t.Sort.K == smt.KInt {
			return smt.IntBin(smt.OIntSub, smt.IntC(0), t)
		}
		return smt.BvNeg(t)
	case token.XOR:
		t, ok := v.(*smt.Term)
		if !ok {
			e.unsupported("^ of %T", v)
		}
		return smt.BvNot(t)
	}
	e.unsupported("unop %v", x.Op)
	return nil
}

func (e *Exec) typeAssert(fr *Frame, x *ssa.TypeAssert) Value {
	v := e.get(fr, x.X)
	ifc, ok := v.(*Iface)
	if !ok {
		if op, isOp := v.(*Opaque); isOp && e.tolerant {
			return op
		}
		e.unsupported("typeassert on %T", v)
	}
	var okb bool
	var res Value
	if ifc.T != nil {
		if types.IsInterface(x.AssertedType) {
			it := x.AssertedType.Underlying().(*types.Interface)
			okb = types.Implements(ifc.T, it)
			res = ifc
		} else {
			okb = types.Identical(ifc.T, x.AssertedType)
			res = ifc.V
		}
	}
	if x.CommaOk {
		if !okb {
			res = zeroValue(x.AssertedType)
		}
		return Tuple{res, smt.BoolC(okb)}
	}
	if !okb {
		e.raisePanic(fmt.Sprintf("interface conversion: %v is not %v", ifc.T, x.AssertedType))
	}
	return res
}

// ---- big helpers -----------------------------------------------------------------------

func bigFromTerm(t *smt.Term) *big.Int {
	if t.Big != nil {
		return t.Big
	}
	return new(big.Int).SetUint64(t.Val)
}
