package sym

import (
	"fmt"
	"sort"
	"strings"
	"sync"
	"sync/atomic"

	"verif/engine/smt"
)

// supportSweep decides, for every set S of at most w indices that contains the last index,
// that the current path condition has no solution with evars[j] = 0 for j outside S and
// evars[last] != 0. The path condition is first brought into GF(2)-affine form (conjunction of
// XOR equations over bits of the evars); any conjunct that is not of that form, or that mentions
// other symbolic inputs, makes the sweep inconclusive. Each support is one solver query.
func (e *Exec) supportSweep(label string, evars []*smt.Term, w int) {
	n := len(evars)
	// evars are ZExt(Var) terms; find the underlying variables
	vars := make([]*smt.Term, n)
	index := map[*smt.Term]int{}
	for i, t := range evars {
		core := t
		for core.Op == smt.OZext {
			core = core.Args[0]
		}
		if core.Op != smt.OVar {
			e.unsupported("support sweep: element %d is not an input variable", i)
		}
		vars[i] = core
		index[core] = i
	}
	type eqn struct {
		c     bool
		atoms [][2]int // (var index, bit)
	}
	var eqs []eqn
	var flat []*smt.Term
	var walk func(t *smt.Term)
	walk = func(t *smt.Term) {
		if t.Op == smt.OAnd {
			for _, a := range t.Args {
				walk(a)
			}
			return
		}
		flat = append(flat, t)
	}
	for _, c := range e.pc {
		walk(c)
	}
	affine := true
	for _, c := range flat {
		lb := smt.LinBool(c)
		if lb == nil {
			affine = false
			break
		}
		q := eqn{c: !lb.C} // LinBool truth bit b = C xor atoms; conjunct holds iff b = 1 iff xor(atoms) = !C
		for _, a := range lb.Atoms {
			vi, ok := index[a.T]
			if !ok {
				affine = false
				break
			}
			q.atoms = append(q.atoms, [2]int{vi, a.Bit})
		}
		eqs = append(eqs, q)
	}
	if !affine {
		// The acceptance condition is not a GF(2)-affine system in the error symbols alone, so
		// neither the cancellation of the codeword nor the shift argument is available: fall back
		// to plain solver queries over ALL supports (not only those containing the last position).
		e.generalSweep(label, vars, w)
		return
	}
	if len(eqs) == 0 {
		e.unsupported("support sweep: empty path condition")
	}
	bitsPer := vars[0].Sort.W
	last := n - 1
	// enumerate supports
	var supports [][]int
	var rec func(start int, cur []int)
	rec = func(start int, cur []int) {
		if len(cur) == w-1 {
			s := append(append([]int{}, cur...), last)
			supports = append(supports, s)
			return
		}
		for i := start; i < last; i++ {
			rec(i+1, append(cur, i))
		}
	}
	if w-1 > last {
		w = last + 1
	}
	rec(0, nil)
	nLast := len(supports)
	// The shift argument ("move the pattern so that its last non-zero symbol is the last symbol")
	// holds for the genuine cyclic code but is not something a changed decoder must respect, so it
	// is not relied upon for low weights: ALL supports of size <= fullw (default 2), wherever they
	// lie, are swept as well (a position-dependent weakness shows up at weight 1 or 2).
	fullw := e.Cfg.Params["fullw"]
	if fullw == 0 {
		fullw = 2
	}
	if fullw > w {
		fullw = w
	}
	var recAny func(start int, cur []int)
	recAny = func(start int, cur []int) {
		if len(cur) == fullw {
			if cur[len(cur)-1] != last { // those containing the last position are already listed
				supports = append(supports, append([]int{}, cur...))
			}
			return
		}
		for i := start; i < n; i++ {
			recAny(i+1, append(cur, i))
		}
	}
	if fullw >= 1 && fullw <= n {
		recAny(0, nil)
	}
	workers := e.Cfg.Workers
	if workers < 1 {
		workers = 1
	}
	var next int64 = -1
	var mu sync.Mutex
	var nUnsat, nUnknown int64
	var solverMs int64
	var wg sync.WaitGroup
	type hit struct {
		s     []int
		model map[string]string
	}
	var hits []hit
	for wk := 0; wk < workers; wk++ {
		wg.Add(1)
		go func() {
			defer wg.Done()
			sv := smt.NewSolver(e.Cfg.Backend)
			defer sv.Close()
			for {
				k := int(atomic.AddInt64(&next, 1))
				if k >= len(supports) {
					return
				}
				S := supports[k]
				in := map[int]bool{}
				for _, j := range S {
					in[j] = true
				}
				var sb strings.Builder
				for _, j := range S {
					for b := 0; b < bitsPer; b++ {
						fmt.Fprintf(&sb, "(declare-const x%d_%d Bool)\n", j, b)
					}
				}
				trivialFalse := false
				for _, q := range eqs {
					var as []string
					for _, a := range q.atoms {
						if in[a[0]] {
							as = append(as, fmt.Sprintf("x%d_%d", a[0], a[1]))
						}
					}
					c := "false"
					if q.c {
						c = "true"
					}
					switch len(as) {
					case 0:
						if q.c {
							trivialFalse = true
						}
					case 1:
						fmt.Fprintf(&sb, "(assert (= %s %s))\n", as[0], c)
					default:
						fmt.Fprintf(&sb, "(assert (= (xor %s) %s))\n", strings.Join(as, " "), c)
					}
				}
				var lastBits []string
				if k < nLast {
					for b := 0; b < bitsPer; b++ {
						lastBits = append(lastBits, fmt.Sprintf("x%d_%d", last, b))
					}
				} else {
					// support anywhere: some symbol of the pattern is non-zero
					for _, j := range S {
						for b := 0; b < bitsPer; b++ {
							lastBits = append(lastBits, fmt.Sprintf("x%d_%d", j, b))
						}
					}
				}
				fmt.Fprintf(&sb, "(assert (or %s))\n", strings.Join(lastBits, " "))
				if trivialFalse {
					// still let the solver say so: add a contradiction it can see
					sb.WriteString("(assert false)\n")
				}
				var getNames []string
				for _, j := range S {
					for b := 0; b < bitsPer; b++ {
						getNames = append(getNames, fmt.Sprintf("x%d_%d", j, b))
					}
				}
				ans := sv.CheckRaw(sb.String(), getNames, e.Cfg.TimeoutMs)
				atomic.AddInt64(&solverMs, ans.Millis)
				switch ans.Res {
				case smt.Unsat:
					atomic.AddInt64(&nUnsat, 1)
				case smt.Sat:
					m := map[string]string{}
					for _, j := range S {
						v := 0
						for b := 0; b < bitsPer; b++ {
							if ans.Model[fmt.Sprintf("x%d_%d", j, b)] == "true" {
								v |= 1 << uint(b)
							}
						}
						m[vars[j].Name] = fmt.Sprint(v)
					}
					mu.Lock()
					hits = append(hits, hit{S, m})
					mu.Unlock()
				default:
					atomic.AddInt64(&nUnknown, 1)
				}
			}
		}()
	}
	wg.Wait()
	e.SweepSupports += len(supports)
	e.SweepMs += solverMs
	ob := Obligation{Label: label, Harness: e.Cfg.Name, Kind: "assert", Where: e.where(), Millis: solverMs,
		Note: fmt.Sprintf("%d supports of size %d over %d positions containing the last position + all %d supports of size %d anywhere, %d XOR equations; unsat=%d unknown=%d", nLast, w, n, len(supports)-nLast, fullw, len(eqs), nUnsat, nUnknown)}
	switch {
	case len(hits) > 0:
		sort.Slice(hits, func(i, j int) bool { return fmt.Sprint(hits[i].s) < fmt.Sprint(hits[j].s) })
		for _, h := range hits[:minInt(len(hits), 3)] {
			o := ob
			o.Verdict = "sat"
			o.Model = h.model
			o.Trace = append([]Decision(nil), e.trace...)
			e.obls = append(e.obls, o)
		}
	case nUnknown > 0:
		ob.Verdict = "unknown"
		e.obls = append(e.obls, ob)
	default:
		ob.Verdict = "unsat"
		e.obls = append(e.obls, ob)
	}
}

func minInt(a, b int) int {
	if a < b {
		return a
	}
	return b
}

// generalSweep: one ordinary SMT query per support (any positions) against the full path condition.
func (e *Exec) generalSweep(label string, vars []*smt.Term, w int) {
	n := len(vars)
	limit := e.Cfg.Params["maxgeneralsupports"]
	if limit == 0 {
		limit = 150000
	}
	// largest weight whose support count fits the budget
	count := func(k int) int {
		c := 1
		for i := 0; i < k; i++ {
			c = c * (n - i) / (i + 1)
			if c > 1<<30 {
				return 1 << 30
			}
		}
		return c
	}
	wk := w
	for wk > 1 && count(wk) > limit {
		wk--
	}
	var supports [][]int
	var rec func(start int, cur []int)
	rec = func(start int, cur []int) {
		if len(cur) == wk {
			supports = append(supports, append([]int{}, cur...))
			return
		}
		for i := start; i < n; i++ {
			rec(i+1, append(cur, i))
		}
	}
	rec(0, nil)
	base, _ := e.script().Render()
	bits := vars[0].Sort.W
	zero := "#b" + strings.Repeat("0", bits)
	qn := func(i int) string { return "|" + strings.ReplaceAll(vars[i].Name, "|", "!") + "|" }
	// make sure every error variable is declared even if the path condition dropped it
	var decl strings.Builder
	for i := range vars {
		if !strings.Contains(base, "(declare-const "+qn(i)+" ") {
			fmt.Fprintf(&decl, "(declare-const %s (_ BitVec %d))\n", qn(i), bits)
		}
	}
	workers := e.Cfg.Workers
	if workers < 1 {
		workers = 1
	}
	var next int64 = -1
	var mu sync.Mutex
	var nUnsat, nUnknown, solverMs int64
	type hit struct {
		s     []int
		model map[string]string
	}
	var hits []hit
	var wg sync.WaitGroup
	for wkr := 0; wkr < workers; wkr++ {
		wg.Add(1)
		go func() {
			defer wg.Done()
			sv := smt.NewSolver(e.Cfg.Backend)
			defer sv.Close()
			for {
				k := int(atomic.AddInt64(&next, 1))
				if k >= len(supports) {
					return
				}
				S := supports[k]
				in := map[int]bool{}
				for _, j := range S {
					in[j] = true
				}
				var sb strings.Builder
				sb.WriteString(decl.String())
				sb.WriteString(base)
				var nz, get []string
				for j := 0; j < n; j++ {
					if in[j] {
						nz = append(nz, fmt.Sprintf("(not (= %s %s))", qn(j), zero))
						get = append(get, qn(j))
					} else {
						fmt.Fprintf(&sb, "(assert (= %s %s))\n", qn(j), zero)
					}
				}
				fmt.Fprintf(&sb, "(assert (or %s))\n", strings.Join(nz, " "))
				ans := sv.CheckRaw(sb.String(), get, e.Cfg.TimeoutMs)
				atomic.AddInt64(&solverMs, ans.Millis)
				switch ans.Res {
				case smt.Unsat:
					atomic.AddInt64(&nUnsat, 1)
				case smt.Sat:
					m := map[string]string{}
					for _, j := range S {
						if b, ok := smt.ParseValue(ans.Model[qn(j)]); ok {
							m[vars[j].Name] = b.String()
						}
					}
					mu.Lock()
					hits = append(hits, hit{S, m})
					mu.Unlock()
				default:
					atomic.AddInt64(&nUnknown, 1)
				}
			}
		}()
	}
	wg.Wait()
	e.SweepSupports += len(supports)
	e.SweepMs += solverMs
	ob := Obligation{Label: label, Harness: e.Cfg.Name, Kind: "assert", Where: e.where(), Millis: solverMs,
		Note: fmt.Sprintf("non-affine acceptance condition: general sweep over all %d supports of size %d (requested weight %d) in %d positions; unsat=%d unknown=%d", len(supports), wk, w, n, nUnsat, nUnknown)}
	switch {
	case len(hits) > 0:
		sort.Slice(hits, func(i, j int) bool { return fmt.Sprint(hits[i].s) < fmt.Sprint(hits[j].s) })
		for _, h := range hits[:minInt(len(hits), 3)] {
			o := ob
			o.Verdict = "sat"
			o.Model = h.model
			o.Trace = append([]Decision(nil), e.trace...)
			e.obls = append(e.obls, o)
		}
	case nUnknown > 0 || wk < w:
		ob.Verdict = "unknown"
		if wk < w {
			ob.Note += "; weight reduced to fit the query budget"
		}
		e.obls = append(e.obls, ob)
	default:
		ob.Verdict = "unsat"
		e.obls = append(e.obls, ob)
	}
}
