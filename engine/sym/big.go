package sym

import (
	"fmt"
	"math/big"

	"golang.org/x/tools/go/ssa"

	"verif/engine/smt"
)

// BigVal is the ghost value of a math/big.Int object. Two disjoint modes:
//
//	int: T has sort Int (used by the Base58 radix conversion; bytes are Int-mode bytes)
//	bv : T is a bit-vector of W bits, unsigned (used for 256-bit scalars and coordinates)
type BigVal struct {
	Mode     string
	T        *smt.Term
	W        int
	MaxBytes int // int mode: v < 256^MaxBytes
}

func bigConst(v *big.Int) *BigVal {
	return &BigVal{Mode: "int", T: smt.IntBig(v), MaxBytes: (v.BitLen() + 7) / 8}
}

func (e *Exec) bigCell(v Value) *Cell {
	p, ok := v.(*Pointer)
	if !ok {
		e.unsupported("big.Int receiver %T", v)
	}
	if isNilPtr(p) {
		e.raisePanic("nil *big.Int dereference")
	}
	if p.C == nil || len(p.C.Sub) != 2 {
		e.unsupported("unexpected big.Int layout")
	}
	return p.C.Sub[1]
}

func (e *Exec) getBig(v Value) *BigVal {
	c := e.bigCell(v)
	switch x := e.load(c).(type) {
	case *BigVal:
		return x
	case *Slice:
		if x.Len == 0 {
			return bigConst(new(big.Int))
		}
	case *Opaque:
		e.unsupported("opaque big.Int (%s)", x.Why)
	}
	e.unsupported("big.Int with unmodelled representation")
	return nil
}

func (e *Exec) setBig(v Value, b *BigVal) Value {
	c := e.bigCell(v)
	e.store(c, b)
	return v
}

func (e *Exec) newBig(b *BigVal) Value {
	t := e.P.namedType("math/big", "Int")
	if t == nil {
		e.unsupported("math/big not loaded")
	}
	c := newCell(zeroValue(t))
	p := &Pointer{C: c}
	e.setBig(p, b)
	return p
}

func (b *BigVal) isConst() (*big.Int, bool) {
	if b.Mode == "int" && b.T.Op == smt.OConst {
		return b.T.Big, true
	}
	if b.Mode == "bv" && b.T.Op == smt.OConst {
		return bigFromTerm(b.T), true
	}
	return nil, false
}

// toMode converts constants between modes; symbolic values cannot change mode.
func (e *Exec) bigAs(b *BigVal, mode string, w int) *BigVal {
	if b.Mode == mode {
		if mode == "bv" && b.W != w {
			if b.W < w {
				return &BigVal{Mode: "bv", T: smt.ZExt(b.T, w), W: w}
			}
			// narrowing is only sound when the high part is zero; callers avoid it
			e.unsupported("narrowing a bv-mode big.Int")
		}
		return b
	}
	c, ok := b.isConst()
	if !ok {
		e.unsupported("mixing Int-mode and bit-vector-mode big.Int values")
	}
	if mode == "int" {
		return bigConst(c)
	}
	if c.Sign() < 0 || c.BitLen() > w {
		e.unsupported("constant does not fit bv-mode width")
	}
	return &BigVal{Mode: "bv", T: smt.BVBig(w, c), W: w}
}

func intOfTerm(e *Exec, t *smt.Term, signed bool, w int) *smt.Term {
	if t.Sort.K == smt.KInt {
		return t
	}
	if c, ok := t.ConstU(); ok {
		if signed {
			return smt.IntC(signExtend(c, w))
		}
		return smt.IntBig(new(big.Int).SetUint64(c))
	}
	if t.Sort.K == smt.KBV {
		// small symbolic machine integers entering Int-mode arithmetic (e.g. a table value handed to
		// SetInt64): the solver's built-in bv2nat, minus 2^w when a signed value is negative
		core := t
		for core.Op == smt.OZext {
			core = core.Args[0]
		}
		n := smt.App("bv2nat", smt.Int, core)
		if !signed || core != t || smt.UMax(t) < uint64(1)<<uint(w-1) {
			return n
		}
		neg := smt.BvCmp(smt.OBvSlt, t, smt.BVC(t.Sort.W, 0))
		return smt.Ite(neg, smt.IntBin(smt.OIntSub, n, smt.IntBig(new(big.Int).Lsh(big.NewInt(1), uint(t.Sort.W)))), n)
	}
	e.unsupported("symbolic bit-vector used where an Int-mode value is needed")
	return nil
}

func (e *Exec) intrinsicBig(name string, fn *ssa.Function, args []Value) (Value, bool) {
	switch name {
	case "math/big.NewInt":
		t := args[0].(*smt.Term)
		return e.newBig(&BigVal{Mode: "int", T: intOfTerm(e, t, true, 64), MaxBytes: 8}), true
	case "(*math/big.Int).SetInt64", "(*math/big.Int).SetUint64":
		t := args[1].(*smt.Term)
		return e.setBig(args[0], &BigVal{Mode: "int", T: intOfTerm(e, t, name == "(*math/big.Int).SetInt64", 64), MaxBytes: 8}), true
	case "(*math/big.Int).Int64", "(*math/big.Int).Uint64":
		b := e.getBig(args[0])
		if c, ok := b.isConst(); ok {
			return smt.BVC(64, c.Uint64()), true
		}
		if b.Mode == "int" {
			return b.T, true // Int-mode machine integer
		}
		return smt.Extract(smt.ZExt(b.T, maxInt(b.W, 64)), 63, 0), true
	case "(*math/big.Int).Set":
		return e.setBig(args[0], e.getBig(args[1])), true
	case "(*math/big.Int).SetBytes":
		bs := e.sliceTerms(args[1])
		if len(bs) == 0 {
			return e.setBig(args[0], bigConst(new(big.Int))), true
		}
		if cb, ok := allConstAny(bs); ok {
			return e.setBig(args[0], bigConst(new(big.Int).SetBytes(cb))), true
		}
		intMode := false
		for _, b := range bs {
			if b.Sort.K == smt.KInt {
				intMode = true
			}
		}
		if intMode {
			acc := smt.IntC(0)
			for _, b := range bs {
				acc = smt.IntBin(smt.OIntAdd, smt.IntBin(smt.OIntMul, acc, smt.IntC(256)), intOfTerm(e, b, false, 8))
			}
			return e.setBig(args[0], &BigVal{Mode: "int", T: acc, MaxBytes: len(bs)}), true
		}
		return e.setBig(args[0], &BigVal{Mode: "bv", T: concatBytes(bs), W: 8 * len(bs)}), true
	case "(*math/big.Int).FillBytes":
		b := e.getBig(args[0])
		buf, ok := args[1].(*Slice)
		if !ok || buf.Buf != nil {
			e.unsupported("FillBytes into %T", args[1])
		}
		n := buf.Len
		var ts []*smt.Term
		if c, ok := b.isConst(); ok {
			if (c.BitLen()+7)/8 > n {
				e.raisePanic("math/big: buffer too small to fit value")
			}
			bs := c.FillBytes(make([]byte, n))
			for _, x := range bs {
				ts = append(ts, byteConst(x))
			}
		} else if b.Mode == "bv" {
			t := b.T
			if b.W > 8*n {
				e.panicCheck("math/big: buffer too small to fit value", smt.Eq(smt.Extract(t, b.W-1, 8*n), smt.BVC(b.W-8*n, 0)))
				t = smt.Extract(t, 8*n-1, 0)
			} else {
				t = smt.ZExt(t, 8*n)
			}
			ts = bytesOfTerm(t, n)
		} else {
			e.unsupported("FillBytes in Int mode")
		}
		for i, x := range ts {
			e.store(buf.Back[buf.Off+i], x)
		}
		return buf, true
	case "(*math/big.Int).Bit":
		b := e.getBig(args[0])
		i := e.constInt(args[1])
		if c, ok := b.isConst(); ok {
			return smt.BVC(64, uint64(c.Bit(i))), true
		}
		if b.Mode != "bv" {
			e.unsupported("Bit in Int mode")
		}
		if i >= b.W {
			return smt.BVC(64, 0), true
		}
		return smt.ZExt(smt.Extract(b.T, i, i), 64), true
	case "(*math/big.Int).Bytes":
		return e.bigBytes(e.getBig(args[0])), true
	case "(*math/big.Int).Add", "(*math/big.Int).Sub", "(*math/big.Int).Mul":
		x, y := e.getBig(args[1]), e.getBig(args[2])
		return e.setBig(args[0], e.bigArith(name, x, y)), true
	case "(*math/big.Int).Mod":
		x, y := e.getBig(args[1]), e.getBig(args[2])
		return e.setBig(args[0], e.bigMod(x, y)), true
	case "(*math/big.Int).DivMod":
		// z.DivMod(x, y, m): z = x div y, m = x mod y (Euclidean)
		x, y := e.getBig(args[1]), e.getBig(args[2])
		if x.Mode != "int" && y.Mode != "int" {
			e.unsupported("DivMod in bv mode")
		}
		x, y = e.bigAs(x, "int", 0), e.bigAs(y, "int", 0)
		if yc, ok := y.isConst(); !ok || yc.Sign() <= 0 {
			e.unsupported("DivMod by non-constant or non-positive")
		}
		var q, m *BigVal
		if _, ok := x.isConst(); ok {
			q = &BigVal{Mode: "int", T: smt.IntBin(smt.OIntDiv, x.T, y.T), MaxBytes: x.MaxBytes}
			m = &BigVal{Mode: "int", T: smt.IntBin(smt.OIntMod, x.T, y.T), MaxBytes: y.MaxBytes}
		} else {
			// linear characterisation (Euclidean division by a positive constant):
			// x = y*q + r, 0 <= r < y  -- keeps the query in linear integer arithmetic
			e.fresh++
			qt := smt.Var(fmt.Sprintf("divq_%d", e.fresh), smt.Int)
			rt := smt.Var(fmt.Sprintf("divr_%d", e.fresh), smt.Int)
			e.pc = append(e.pc,
				smt.Eq(x.T, smt.IntBin(smt.OIntAdd, smt.IntBin(smt.OIntMul, y.T, qt), rt)),
				smt.IntCmp(smt.OIntLe, smt.IntC(0), rt), smt.IntCmp(smt.OIntLt, rt, y.T))
			q = &BigVal{Mode: "int", T: qt, MaxBytes: x.MaxBytes}
			m = &BigVal{Mode: "int", T: rt, MaxBytes: y.MaxBytes}
		}
		e.setBig(args[3], m)
		e.setBig(args[0], q)
		return Tuple{args[0], args[3]}, true
	case "(*math/big.Int).Cmp":
		x, y := e.getBig(args[0]), e.getBig(args[1])
		lt, eq := e.bigCompare(x, y)
		return smt.Ite(lt, smt.BVC(64, ^uint64(0)), smt.Ite(eq, smt.BVC(64, 0), smt.BVC(64, 1))), true
	case "(*math/big.Int).Sign":
		x := e.getBig(args[0])
		lt, eq := e.bigCompare(x, bigConst(new(big.Int)))
		return smt.Ite(lt, smt.BVC(64, ^uint64(0)), smt.Ite(eq, smt.BVC(64, 0), smt.BVC(64, 1))), true
	}
	return nil, false
}

func maxInt(a, b int) int {
	if a > b {
		return a
	}
	return b
}

func allConstAny(ts []*smt.Term) ([]byte, bool) {
	b := make([]byte, len(ts))
	for i, t := range ts {
		if t.Op != smt.OConst {
			return nil, false
		}
		if t.Sort.K == smt.KInt {
			b[i] = byte(t.Big.Uint64())
		} else {
			b[i] = byte(t.Val)
		}
	}
	return b, true
}

func (e *Exec) bigModes(x, y *BigVal) (*BigVal, *BigVal, string) {
	if x.Mode == y.Mode && x.Mode == "int" {
		return x, y, "int"
	}
	if _, ok := x.isConst(); ok && x.Mode == "int" && y.Mode == "bv" {
		return e.bigAs(x, "bv", y.W), y, "bv"
	}
	if _, ok := y.isConst(); ok && y.Mode == "int" && x.Mode == "bv" {
		return x, e.bigAs(y, "bv", x.W), "bv"
	}
	if x.Mode == "bv" && y.Mode == "bv" {
		w := maxInt(x.W, y.W)
		return e.bigAs(x, "bv", w), e.bigAs(y, "bv", w), "bv"
	}
	e.unsupported("mixing Int-mode and bit-vector-mode big.Int values")
	return nil, nil, ""
}

func (e *Exec) bigArith(name string, x, y *BigVal) *BigVal {
	xc, okx := x.isConst()
	yc, oky := y.isConst()
	if okx && oky {
		r := new(big.Int)
		switch name {
		case "(*math/big.Int).Add":
			r.Add(xc, yc)
		case "(*math/big.Int).Sub":
			r.Sub(xc, yc)
		default:
			r.Mul(xc, yc)
		}
		return bigConst(r)
	}
	x, y, mode := e.bigModes(x, y)
	if mode == "int" {
		switch name {
		case "(*math/big.Int).Add":
			return &BigVal{Mode: "int", T: smt.IntBin(smt.OIntAdd, x.T, y.T), MaxBytes: maxInt(x.MaxBytes, y.MaxBytes) + 1}
		case "(*math/big.Int).Sub":
			return &BigVal{Mode: "int", T: smt.IntBin(smt.OIntSub, x.T, y.T), MaxBytes: maxInt(x.MaxBytes, y.MaxBytes) + 1}
		default:
			return &BigVal{Mode: "int", T: smt.IntBin(smt.OIntMul, x.T, y.T), MaxBytes: x.MaxBytes + y.MaxBytes}
		}
	}
	switch name {
	case "(*math/big.Int).Add":
		w := x.W + 8
		return &BigVal{Mode: "bv", T: smt.BvBin(smt.OBvAdd, smt.ZExt(x.T, w), smt.ZExt(y.T, w)), W: w}
	}
	e.unsupported("%s in bv mode", name)
	return nil
}

func (e *Exec) bigMod(x, y *BigVal) *BigVal {
	xc, okx := x.isConst()
	yc, oky := y.isConst()
	if okx && oky && yc.Sign() > 0 {
		return bigConst(new(big.Int).Mod(xc, yc))
	}
	if !oky || yc.Sign() <= 0 {
		e.unsupported("Mod by non-constant")
	}
	if x.Mode == "int" {
		return &BigVal{Mode: "int", T: smt.IntBin(smt.OIntMod, x.T, smt.IntBig(yc)), MaxBytes: (yc.BitLen() + 7) / 8}
	}
	// bv mode: x mod N. When x < 2N (sum of two reduced values) this is a conditional subtraction.
	wN := ((yc.BitLen() + 7) / 8) * 8
	w := maxInt(x.W, wN)
	xt := smt.ZExt(x.T, w)
	n := smt.BVBig(w, yc)
	var r *smt.Term
	if e.Cfg.ModAsCondSub {
		two := new(big.Int).Lsh(yc, 1)
		if two.BitLen() <= w {
			// record the side condition x < 2N as an obligation so the shortcut is justified
			e.check("assert", "internal:mod-operand-below-2N", smt.BvCmp(smt.OBvUlt, xt, smt.BVBig(w, two)))
		}
		r = smt.Ite(smt.BvCmp(smt.OBvUlt, xt, n), xt, smt.BvBin(smt.OBvSub, xt, n))
	} else {
		r = smt.BvBin(smt.OBvURem, xt, n)
	}
	return &BigVal{Mode: "bv", T: smt.Extract(r, wN-1, 0), W: wN}
}

func (e *Exec) bigCompare(x, y *BigVal) (lt, eq *smt.Term) {
	xc, okx := x.isConst()
	yc, oky := y.isConst()
	if okx && oky {
		c := xc.Cmp(yc)
		return smt.BoolC(c < 0), smt.BoolC(c == 0)
	}
	x, y, mode := e.bigModes(x, y)
	if mode == "int" {
		return smt.IntCmp(smt.OIntLt, x.T, y.T), smt.Eq(x.T, y.T)
	}
	return smt.BvCmp(smt.OBvUlt, x.T, y.T), smt.Eq(x.T, y.T)
}

// bigBytes models (*big.Int).Bytes(): big-endian without leading zero bytes.
func (e *Exec) bigBytes(b *BigVal) Value {
	if c, ok := b.isConst(); ok {
		if c.Sign() < 0 {
			c = new(big.Int).Abs(c)
		}
		bs := c.Bytes()
		ts := make([]*smt.Term, len(bs))
		for i := range bs {
			ts[i] = byteConst(bs[i])
		}
		return e.newByteSlice(ts)
	}
	if b.Mode == "bv" {
		n := b.W / 8
		bs := bytesOfTerm(b.T, n)
		// fork on the number of leading zero bytes
		k := e.choose(n+1, func(i int) bool { return e.feasible(leadZeros(bs, i)) })
		e.pc = append(e.pc, leadZeros(bs, k))
		return e.newByteSlice(bs[k:])
	}
	// int mode: fork on byte length L, introduce bytes with sum = value
	max := b.MaxBytes
	if max > 128 {
		e.unsupported("big.Int too wide for Bytes()")
	}
	lenCond := func(L int) *smt.Term {
		if L == 0 {
			return smt.Eq(b.T, smt.IntC(0))
		}
		lo := new(big.Int).Lsh(big.NewInt(1), uint(8*(L-1)))
		hi := new(big.Int).Lsh(big.NewInt(1), uint(8*L))
		return smt.And(smt.IntCmp(smt.OIntLe, smt.IntBig(lo), b.T), smt.IntCmp(smt.OIntLt, b.T, smt.IntBig(hi)))
	}
	L := e.choose(max+1, func(i int) bool { return e.feasible(lenCond(i)) })
	e.pc = append(e.pc, lenCond(L))
	ts := make([]*smt.Term, L)
	sum := smt.IntC(0)
	for i := 0; i < L; i++ {
		e.fresh++
		t := smt.Var(fmt.Sprintf("bigbyte_%d", e.fresh), smt.Int)
		e.pc = append(e.pc, smt.IntCmp(smt.OIntLe, smt.IntC(0), t), smt.IntCmp(smt.OIntLe, t, smt.IntC(255)))
		sum = smt.IntBin(smt.OIntAdd, smt.IntBin(smt.OIntMul, sum, smt.IntC(256)), t)
		ts[i] = t
	}
	e.pc = append(e.pc, smt.Eq(sum, b.T))
	return e.newByteSlice(ts)
}

func leadZeros(bs []*smt.Term, k int) *smt.Term {
	var cs []*smt.Term
	for i := 0; i < k; i++ {
		cs = append(cs, smt.Eq(bs[i], smt.BVC(8, 0)))
	}
	if k < len(bs) {
		cs = append(cs, smt.Not(smt.Eq(bs[k], smt.BVC(8, 0))))
	}
	return smt.And(cs...)
}
