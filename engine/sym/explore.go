package sym

import (
	"fmt"
	"os"
	"sort"
	"sync"
	"time"

	"golang.org/x/tools/go/ssa"

	"verif/engine/smt"
)

type Shared struct {
	mu      sync.Mutex
	reached map[string]bool
}

func (s *Shared) reachedAlready(l string) bool {
	s.mu.Lock()
	defer s.mu.Unlock()
	return s.reached[l]
}
func (s *Shared) markReached(l string) {
	s.mu.Lock()
	s.reached[l] = true
	s.mu.Unlock()
}

type HarnessResult struct {
	Name         string
	Paths        int
	DeadPaths    int
	Instrs       int
	Obls         []Obligation // everything except trivial/unsat (those are counted)
	Samples      []Obligation // a few discharged obligations
	NTrivial     int
	NUnsat       int
	NSat         int
	NUnknown     int
	NBound       int
	Inconclusive map[string]int
	Reached      map[string]bool
	Funcs        map[string]bool
	UFs          map[string]bool
	Notes        map[string]int
	Queries      int
	FeasQueries  int
	SolverTime   time.Duration
	Wall         time.Duration
	MaxQueryMs   int64
	PathLimit    bool
	TimeLimit    bool
	Supports     int
	SweepMs      int64
}

type job struct{ prefix []Decision }

// Explore runs every path of harness function fn.
func Explore(p *Program, cfg *HarnessCfg) *HarnessResult {
	t0 := time.Now()
	fn := p.FindFunc(cfg.Pkg, cfg.Name)
	res := &HarnessResult{Name: cfg.Name, Inconclusive: map[string]int{}, Reached: map[string]bool{}, Funcs: map[string]bool{}, UFs: map[string]bool{}, Notes: map[string]int{}}
	if fn == nil {
		res.Inconclusive["harness function not found: "+cfg.Pkg+"."+cfg.Name]++
		return res
	}
	shared := &Shared{reached: map[string]bool{}}
	var mu sync.Mutex
	cond := sync.NewCond(&mu)
	queue := []job{{}}
	active := 0
	paths := 0
	workers := cfg.Workers
	if workers < 1 {
		workers = 1
	}
	var wg sync.WaitGroup
	if os.Getenv("GOSMT_PROGRESS") != "" {
		stop := make(chan bool)
		defer close(stop)
		go func() {
			for {
				select {
				case <-stop:
					return
				case <-time.After(5 * time.Second):
					mu.Lock()
					fmt.Fprintf(os.Stderr, "[progress %s] paths=%d queue=%d active=%d unsat=%d sat=%d triv=%d incon=%d\n", cfg.Name, paths, len(queue), active, res.NUnsat, res.NSat, res.NTrivial, len(res.Inconclusive))
					mu.Unlock()
				}
			}
		}()
	}
	for w := 0; w < workers; w++ {
		wg.Add(1)
		go func() {
			defer wg.Done()
			solver := smt.NewSolver(cfg.Backend)
			defer solver.Close()
			for {
				mu.Lock()
				for len(queue) == 0 && active > 0 {
					cond.Wait()
				}
				if len(queue) == 0 && active == 0 {
					mu.Unlock()
					cond.Broadcast()
					break
				}
				j := queue[len(queue)-1]
				queue = queue[:len(queue)-1]
				if paths >= cfg.MaxPaths {
					res.PathLimit = true
					queue = nil
					mu.Unlock()
					cond.Broadcast()
					continue
				}
				if cfg.TimeBudgetS > 0 && time.Since(t0) > time.Duration(cfg.TimeBudgetS)*time.Second {
					// out of time: stop scheduling paths; what was found so far is still reported
					res.TimeLimit = true
					queue = nil
					mu.Unlock()
					cond.Broadcast()
					continue
				}
				paths++
				active++
				mu.Unlock()

				e := runPath(p, cfg, fn, j.prefix, solver, shared)

				mu.Lock()
				active--
				for _, f := range e.forks {
					queue = append(queue, job{f})
				}
				res.absorb(e)
				mu.Unlock()
				cond.Broadcast()
			}
			mu.Lock()
			res.Queries += solver.Queries
			res.SolverTime += solver.Time
			mu.Unlock()
		}()
	}
	wg.Wait()
	res.Paths = paths
	for l := range shared.reached {
		res.Reached[l] = true
	}
	res.Wall = time.Since(t0)
	sort.Slice(res.Obls, func(i, j int) bool { return res.Obls[i].Label < res.Obls[j].Label })
	return res
}

func (r *HarnessResult) absorb(e *Exec) {
	r.Instrs += e.Instrs
	r.Supports += e.SweepSupports
	r.SweepMs += e.SweepMs
	r.FeasQueries += e.feasQ
	if e.endWhy == "infeasible" || e.endWhy == "assumption false" {
		r.DeadPaths++
	}
	if e.inconcl != "" {
		r.Inconclusive[e.inconcl]++
	}
	for f := range e.funcs {
		r.Funcs[f] = true
	}
	for f := range e.ufSeen {
		r.UFs[f] = true
	}
	for _, n := range e.notes {
		r.Notes[n]++
	}
	for _, o := range e.obls {
		if o.Millis > r.MaxQueryMs {
			r.MaxQueryMs = o.Millis
		}
		switch o.Verdict {
		case "trivial":
			r.NTrivial++
		case "unsat":
			r.NUnsat++
			if len(r.Samples) < 6 {
				r.Samples = append(r.Samples, o)
			}
		case "sat":
			r.NSat++
			r.Obls = append(r.Obls, o)
		case "unknown":
			r.NUnknown++
			r.Obls = append(r.Obls, o)
		case "bound-exceeded":
			r.NBound++
			r.Obls = append(r.Obls, o)
		}
	}
}

func runPath(p *Program, cfg *HarnessCfg, fn *ssa.Function, prefix []Decision, solver *smt.Solver, shared *Shared) (e *Exec) {
	e = &Exec{P: p, Cfg: cfg, Solver: solver, prefix: prefix, funcs: map[string]bool{}, Shared: shared}
	defer func() {
		if r := recover(); r != nil {
			switch x := r.(type) {
			case pathEnd:
				e.endWhy = x.why
			case inconclusive:
				e.inconcl = x.why
			case goPanic:
				// a panic escaped the harness
				e.guard = nil
				e.obls = append(e.obls, Obligation{Label: "panic:escaped:" + x.msg, Harness: cfg.Name, Kind: "panic", Verdict: "unknown", Note: "panic escaped harness with PanicsAllowed"})
			default:
				e.inconcl = fmt.Sprintf("engine panic: %v @ %s", r, e.where())
				if cfg.Params["debugpanic"] != 0 {
					panic(r)
				}
			}
		}
	}()
	defer func() {
		// pending implicit checks are discharged whatever way the path ended
		if e.endWhy != "infeasible" && e.endWhy != "assumption false" {
			func() {
				defer func() {
					if r := recover(); r != nil {
						e.inconcl = fmt.Sprintf("flush: %v", r)
					}
				}()
				e.guard = nil
				e.flushPanics()
			}()
		}
	}()
	e.callFunction(fn, nil)
	e.endWhy = "returned"
	return e
}
