package sym

import (
	"fmt"
	"math"
	"math/big"

	"golang.org/x/tools/go/ssa"

	"verif/engine/smt"
)

const b58Alphabet = "123456789ABCDEFGHJKLMNPQRSTUVWXYZabcdefghijkmnopqrstuvwxyz"

var b58Member [256]uint64

func init() {
	for i := 0; i < len(b58Alphabet); i++ {
		b58Member[b58Alphabet[i]] = 1
	}
}

type b58rec struct {
	chars []*smt.Term
	bytes []*smt.Term
}

func inB58(c *smt.Term) *smt.Term {
	return smt.Eq(smt.Table(b58Member[:], 1, c), smt.BVC(1, 1))
}

func digitsBase(v *big.Int, base int64) int {
	if v.Sign() == 0 {
		return 0
	}
	n := 0
	t := new(big.Int).Set(v)
	b := big.NewInt(base)
	for t.Sign() > 0 {
		t.Div(t, b)
		n++
	}
	return n
}

func pow(base int64, k int) *big.Int {
	return new(big.Int).Exp(big.NewInt(base), big.NewInt(int64(k)), nil)
}

// abstractB58Encode: Base58 as an abstract injective map (contract established by C07 on the real code).
func (e *Exec) abstractB58Encode(bs []*smt.Term) Value {
	n := len(bs)
	// encoding the same bytes again gives the same string
	for _, r := range e.b58 {
		if len(r.bytes) != n {
			continue
		}
		same := true
		for i := range bs {
			if !smt.Same(r.bytes[i], bs[i]) && !smt.StructEq(r.bytes[i], bs[i]) {
				same = false
				break
			}
		}
		if same {
			return &Str{B: r.chars}
		}
	}
	z := e.choose(n+1, func(i int) bool { return e.feasible(leadZeros(bs, i)) })
	e.pc = append(e.pc, leadZeros(bs, z))
	m := n - z
	var chars []*smt.Term
	for i := 0; i < z; i++ {
		chars = append(chars, byteConst('1'))
	}
	if m > 0 {
		lo := digitsBase(pow(256, m-1), 58)
		hi := digitsBase(new(big.Int).Sub(pow(256, m), big.NewInt(1)), 58)
		d := lo + e.choose(hi-lo+1, nil)
		uf := smt.App(fmt.Sprintf("b58enc_%d_%d_%d", n, z, d), smt.BV(8*d), concatBytes(bs))
		cs := bytesOfTerm(uf, d)
		for i, c := range cs {
			e.pc = append(e.pc, inB58(c))
			if i == 0 {
				e.pc = append(e.pc, smt.Not(smt.Eq(c, byteConst('1'))))
			}
		}
		chars = append(chars, cs...)
	}
	e.b58 = append(e.b58, b58rec{chars: chars, bytes: append([]*smt.Term(nil), bs...)})
	if e.ufSeen == nil {
		e.ufSeen = map[string]bool{}
	}
	e.ufSeen["base58 (abstract bijection)"] = true
	return &Str{B: chars}
}

func (e *Exec) abstractB58Decode(s *Str) Value {
	for _, r := range e.b58 {
		if len(r.chars) != len(s.B) {
			continue
		}
		same := true
		for i := range r.chars {
			if !smt.Same(r.chars[i], s.B[i]) {
				same = false
				break
			}
		}
		if same {
			return e.newByteSlice(append([]*smt.Term(nil), r.bytes...))
		}
	}
	n := len(s.B)
	var bad []*smt.Term
	for _, c := range s.B {
		bad = append(bad, smt.Not(inB58(c)))
	}
	anyBad := smt.Or(bad...)
	if !anyBad.IsFalse() {
		if anyBad.IsTrue() {
			return &Slice{Back: []*Cell{}, Len: 0, Cap: 0}
		}
		// both sides are explored without a feasibility query (the path condition of callers is
		// typically checksum-heavy); an infeasible side only costs vacuous obligations
		if e.choose(2, nil) == 0 {
			e.pc = append(e.pc, anyBad)
			return &Slice{Back: []*Cell{}, Len: 0, Cap: 0}
		}
		e.pc = append(e.pc, smt.Not(anyBad))
	}
	// Over-approximation: the decoded length is any length a string of n alphabet characters can
	// have (leading '1's map to zero bytes one-for-one, the rest shrinks by log 58 / log 256);
	// the contents are an uninterpreted function of the characters.
	lo := 0
	if n > 0 {
		lo = (pow(58, n-1).BitLen() + 7) / 8
	}
	if lo > n {
		lo = n
	}
	L := lo + e.choose(n-lo+1, nil)
	var out []*smt.Term
	if L > 0 {
		uf := smt.App(fmt.Sprintf("b58dec_%d_%d", n, L), smt.BV(8*L), concatBytes(s.B))
		out = bytesOfTerm(uf, L)
	}
	if e.ufSeen == nil {
		e.ufSeen = map[string]bool{}
	}
	e.ufSeen["base58 (abstract bijection)"] = true
	return e.newByteSlice(out)
}

func (e *Exec) intrinsicMisc(name string, fn *ssa.Function, args []Value) (Value, bool) {
	switch name {
	case "math.Round":
		x := args[0].(*smt.Term)
		if x.IsConst() {
			return smt.FPC(math.Float64bits(math.Round(math.Float64frombits(x.Val)))), true
		}
		return smt.Fp(smt.OFpRoundRNA, smt.FP64, x), true
	case "math.Trunc":
		x := args[0].(*smt.Term)
		if x.IsConst() {
			return smt.FPC(math.Float64bits(math.Trunc(math.Float64frombits(x.Val)))), true
		}
		return smt.Fp(smt.OFpRoundRTZ, smt.FP64, x), true
	case "math.Abs":
		x := args[0].(*smt.Term)
		if x.IsConst() {
			return smt.FPC(math.Float64bits(math.Abs(math.Float64frombits(x.Val)))), true
		}
		return smt.Fp(smt.OFpAbs, smt.FP64, x), true
	case "math.Log":
		x := args[0].(*smt.Term)
		if x.IsConst() {
			return smt.FPC(math.Float64bits(math.Log(math.Float64frombits(x.Val)))), true
		}
		// unconstrained result (any float, including NaN and infinities)
		e.fresh++
		return smt.Var(fmt.Sprintf("mathlog_%d", e.fresh), smt.FP64), true
	case "math.Float64frombits":
		x := args[0].(*smt.Term)
		if c, ok := x.ConstU(); ok {
			return smt.FPC(c), true
		}
		return smt.Fp(smt.OFpFromBits, smt.FP64, x), true
	case "math.IsNaN":
		x := args[0].(*smt.Term)
		if x.IsConst() {
			return smt.BoolC(math.IsNaN(math.Float64frombits(x.Val))), true
		}
		return smt.Fp(smt.OFpIsNaN, smt.Bool, x), true
	case "github.com/gcash/bchutil/base58.Encode":
		if e.Cfg.RealBase58 {
			return nil, false
		}
		bs := e.sliceTerms(args[0])
		if _, ok := allConst(bs); ok {
			return nil, false
		}
		return e.abstractB58Encode(bs), true
	case "github.com/gcash/bchutil/base58.Decode":
		if e.Cfg.RealBase58 {
			return nil, false
		}
		s := args[0].(*Str)
		if _, ok := allConst(s.B); ok {
			return nil, false
		}
		return e.abstractB58Decode(s), true
	}
	return nil, false
}

func (e *Exec) harnessAPI2(fn *ssa.Function, args []Value) (Value, bool) {
	switch fn.Name() {
	case "vWatch":
		// vWatch(mu *sync.Mutex, p interface{}): every later access to memory reachable from p
		// must happen while mu is held
		mu := ptrArg(args[0])
		if mu == nil {
			e.unsupported("vWatch: lock argument is not a pointer")
		}
		if e.watch == nil {
			e.watch = map[*Cell]*Cell{}
			e.watchBuf = map[*SymBuf]*Cell{}
		}
		if e.lockHeld == nil {
			e.lockHeld = map[*Cell]int{}
		}
		e.watchOff = true
		e.watchValue(args[1], mu.C, 0)
		e.watchOff = false
		return nil, true
	case "vUF64":
		// vUF64(name string, a, b, c uint64) uint64
		name := e.constStr(args[0])
		var ts []*smt.Term
		for _, a := range args[1:] {
			ts = append(ts, a.(*smt.Term))
		}
		if e.ufSeen == nil {
			e.ufSeen = map[string]bool{}
		}
		e.ufSeen["uf_"+name] = true
		app := smt.App("uf_"+name, smt.BV(64), ts...)
		if len(e.ufLog) < 64 {
			var la [][]*smt.Term
			for _, t := range ts {
				la = append(la, bytesOfTerm(t, 8))
			}
			e.ufLog = append(e.ufLog, ufLogEntry{name: "vUF64:" + name, args: la, res: app})
		}
		return app, true
	case "vInverseTables":
		// vInverseTables(a string, b []byte) bool: verify on the real contents that b inverts a,
		// and if so let Int-mode lookups use inverse lemmas instead of 256-way definitions
		as := args[0].(*Str)
		bs := e.sliceTerms(args[1])
		var av, bv []int64
		for _, t := range as.B {
			c, ok := t.ConstU()
			if !ok {
				e.unsupported("vInverseTables: non-constant table")
			}
			av = append(av, int64(c))
		}
		for _, t := range bs {
			c, ok := t.ConstU()
			if !ok {
				e.unsupported("vInverseTables: non-constant table")
			}
			bv = append(bv, int64(c))
		}
		return smt.BoolC(e.pairTables(av, bv)), true
	case "vFailedCount":
		return smt.BVC(64, 0), true
	case "vWatchOff":
		e.watchOff = true
		return nil, true
	case "vWatchOn":
		e.watchOff = false
		return nil, true
	case "vHeld":
		mu := ptrArg(args[0])
		if mu == nil {
			e.unsupported("vHeld: lock argument is not a pointer")
		}
		return smt.BoolC(e.lockHeld[mu.C] != 0), true
	case "vWatchHits":
		return smt.BVC(64, uint64(e.watchHits)), true
	case "vBufClone":
		s := args[0].(*Slice)
		if s.Buf == nil {
			ts := e.sliceTerms(s)
			return e.newByteSlice(append([]*smt.Term(nil), ts...)), true
		}
		return &Slice{Buf: &SymBuf{Arr: s.Buf.Arr, Len: s.Buf.Len}}, true
	case "vSupportSweep":
		label := e.constStr(args[0])
		ev := e.sliceTerms(args[1])
		w := e.constInt(args[2])
		e.supportSweep(label, ev, w)
		return nil, true
	}
	return nil, false
}

func ptrArg(v Value) *Pointer {
	if ifc, ok := v.(*Iface); ok {
		v = ifc.V
	}
	p, _ := v.(*Pointer)
	if p == nil || p.C == nil {
		return nil
	}
	return p
}

func (e *Exec) watchCell(c *Cell, mu *Cell, depth int) {
	if c == nil || depth > 6 || c == mu {
		return
	}
	if c.Sub != nil {
		for _, s := range c.Sub {
			e.watchCell(s, mu, depth)
		}
		return
	}
	if _, done := e.watch[c]; done {
		return
	}
	e.watch[c] = mu
	e.watchValue(e.load(c), mu, depth+1)
}

func (e *Exec) watchValue(v Value, mu *Cell, depth int) {
	switch x := v.(type) {
	case *Iface:
		e.watchValue(x.V, mu, depth)
	case *Pointer:
		if x.C != nil && x.C != mu {
			e.watchCell(x.C, mu, depth)
		}
	case *Slice:
		if x.Buf != nil {
			e.watchBuf[x.Buf] = mu
			return
		}
		for i := 0; i < x.Cap && x.Off+i < len(x.Back); i++ {
			e.watchCell(x.Back[x.Off+i], mu, depth)
		}
	}
}
