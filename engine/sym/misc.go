package sym

import (
	"golang.org/x/tools/go/ssa"
)

func (e *Exec) intrinsicBig(name string, fn *ssa.Function, args []Value) (Value, bool) {
	return nil, false
}

func (e *Exec) intrinsicMisc(name string, fn *ssa.Function, args []Value) (Value, bool) {
	return nil, false
}

func (e *Exec) harnessAPI2(fn *ssa.Function, args []Value) (Value, bool) {
	return nil, false
}
