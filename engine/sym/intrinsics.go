package sym

import (
	"crypto/sha256"
	"crypto/sha512"
	"fmt"
	"go/types"
	"strings"

	"golang.org/x/tools/go/ssa"

	"verif/engine/smt"
)

// pureIntrinsics may be called inside merged regions.
var pureIntrinsics = map[string]bool{}

type hasher struct {
	kind string
	key  []*smt.Term
	data []*smt.Term
}

func (e *Exec) sliceTerms(v Value) []*smt.Term {
	switch s := v.(type) {
	case *Slice:
		if s.Buf != nil {
			e.unsupported("symbolic buffer passed where concrete-length bytes are needed")
		}
		out := make([]*smt.Term, s.Len)
		for i := 0; i < s.Len; i++ {
			t, ok := e.load(s.Back[s.Off+i]).(*smt.Term)
			if !ok {
				e.unsupported("non-scalar slice element")
			}
			out[i] = t
		}
		return out
	case *Str:
		return s.B
	}
	e.unsupported("expected byte slice, got %T", v)
	return nil
}

func (e *Exec) newByteSlice(ts []*smt.Term) *Slice {
	return &Slice{Back: newCells(len(ts), func(i int) Value { return ts[i] }), Len: len(ts), Cap: len(ts)}
}

func allConst(ts []*smt.Term) ([]byte, bool) {
	b := make([]byte, len(ts))
	for i, t := range ts {
		v, ok := t.ConstU()
		if !ok {
			return nil, false
		}
		b[i] = byte(v)
	}
	return b, true
}

func concatBytes(ts []*smt.Term) *smt.Term {
	r := ts[0]
	for _, t := range ts[1:] {
		r = smt.Concat(r, t)
	}
	return r
}

func bytesOfTerm(t *smt.Term, n int) []*smt.Term {
	out := make([]*smt.Term, n)
	for i := 0; i < n; i++ {
		hi := (n-i)*8 - 1
		out[i] = smt.Extract(t, hi, hi-7)
	}
	return out
}

// ufBytes applies the uninterpreted (or, on constants, real) function name to a byte string.
func (e *Exec) ufBytes(name string, in []*smt.Term, outBytes int, real func([]byte) []byte) []*smt.Term {
	if b, ok := allConst(in); ok && real != nil && !e.Cfg.UFAlways {
		r := real(b)
		out := make([]*smt.Term, len(r))
		for i := range r {
			out[i] = byteConst(r[i])
		}
		return out
	}
	for _, t := range in {
		if t.Sort.K != smt.KBV {
			e.unsupported("hash of Int-mode bytes")
		}
	}
	fname := fmt.Sprintf("%s_%d", name, len(in))
	if e.ufSeen == nil {
		e.ufSeen = map[string]bool{}
	}
	e.ufSeen[fname] = true
	var app *smt.Term
	if len(in) == 0 {
		app = smt.App(fname, smt.BV(outBytes*8))
	} else {
		arg := concatBytes(in)
		app = smt.App(fname, smt.BV(outBytes*8), arg)
		if e.Cfg.InjectiveUF {
			// collision freedom of the idealised hash, instantiated for the applications on this path
			if e.ufApps == nil {
				e.ufApps = map[string][][2]*smt.Term{}
			}
			for _, prev := range e.ufApps[fname] {
				if prev[0] == arg {
					continue
				}
				e.pc = append(e.pc, smt.Implies(smt.Eq(app, prev[1]), smt.Eq(arg, prev[0])))
			}
			e.ufApps[fname] = append(e.ufApps[fname], [2]*smt.Term{arg, app})
		}
	}
	return bytesOfTerm(app, outBytes)
}

func realSha256(b []byte) []byte { h := sha256.Sum256(b); return h[:] }
func realSha512(b []byte) []byte { h := sha512.Sum512(b); return h[:] }

func termsToAgg(ts []*smt.Term) *Agg {
	a := &Agg{E: make([]Value, len(ts))}
	for i, t := range ts {
		a.E[i] = t
	}
	return a
}

func (e *Exec) hasherOf(v Value) *hasher {
	p, ok := v.(*Pointer)
	if !ok || p.C == nil {
		e.unsupported("hasher receiver %T", v)
	}
	h, ok := e.load(p.C).(*hasher)
	if !ok {
		e.unsupported("not a modelled hasher")
	}
	return h
}

func (e *Exec) newHasher(kind, pkg, typ string, key []*smt.Term) Value {
	t := e.P.namedType(pkg, typ)
	if t == nil {
		e.unsupported("type %s.%s not loaded", pkg, typ)
	}
	c := &Cell{V: &hasher{kind: kind, key: key}}
	return &Iface{T: types.NewPointer(t), V: &Pointer{C: c}}
}

func (e *Exec) hashSum(h *hasher) []*smt.Term {
	switch h.kind {
	case "sha256":
		return e.ufBytes("sha256", h.data, 32, realSha256)
	case "sha512":
		return e.ufBytes("sha512", h.data, 64, realSha512)
	case "ripemd160":
		return e.ufBytes("ripemd160", h.data, 20, e.Cfg.RealRipemd)
	case "hmac-sha512":
		in := append(append([]*smt.Term{}, h.key...), h.data...)
		return e.ufBytes(fmt.Sprintf("hmacsha512_k%d", len(h.key)), in, 64, nil)
	}
	e.unsupported("hasher kind %s", h.kind)
	return nil
}

// intrinsic intercepts calls. ok=false means: execute the real body.
func (e *Exec) intrinsic(fn *ssa.Function, args []Value) (ret Value, ok bool) {
	name := fn.String()
	if e.Cfg.Stubs != nil {
		if stub, has := e.Cfg.Stubs[name]; has {
			sf := e.P.FindFunc(e.Cfg.Pkg, stub)
			if sf == nil {
				e.unsupported("stub %s not found", stub)
			}
			return e.callFunction(sf, args), true
		}
	}
	if e.Cfg.UFCalls != nil && e.Cfg.UFCalls[name] {
		return e.ufCall(fn, args), true
	}
	if fn.Blocks == nil && fn.Pkg != nil && fn.Pkg.Pkg.Path() == e.Cfg.Pkg && strings.HasPrefix(fn.Name(), "v") {
		return e.harnessAPI(fn, args), true
	}
	switch name {
	// ---- hashing ----------------------------------------------------------------
	case "crypto/sha256.Sum256":
		return termsToAgg(e.ufBytes("sha256", e.sliceTerms(args[0]), 32, realSha256)), true
	case "crypto/sha512.Sum512":
		return termsToAgg(e.ufBytes("sha512", e.sliceTerms(args[0]), 64, realSha512)), true
	case "crypto/sha256.New":
		return e.newHasher("sha256", "crypto/sha256", "digest", nil), true
	case "crypto/sha512.New":
		return e.newHasher("sha512", "crypto/sha512", "digest", nil), true
	case "golang.org/x/crypto/ripemd160.New":
		return e.newHasher("ripemd160", "golang.org/x/crypto/ripemd160", "digest", nil), true
	case "crypto/hmac.New":
		// hmac.New(sha512.New, key)
		c, _ := args[0].(*Closure)
		if c == nil || c.Fn == nil || c.Fn.String() != "crypto/sha512.New" {
			e.unsupported("hmac.New with unmodelled hash")
		}
		return e.newHasher("hmac-sha512", "crypto/hmac", "hmac", e.sliceTerms(args[1])), true
	case "(*crypto/sha256.digest).Write", "(*crypto/sha512.digest).Write", "(*golang.org/x/crypto/ripemd160.digest).Write", "(*crypto/hmac.hmac).Write":
		h := e.hasherOf(args[0])
		d := e.sliceTerms(args[1])
		h.data = append(h.data, d...)
		return Tuple{smt.BVC(64, uint64(len(d))), &Iface{}}, true
	case "(*crypto/sha256.digest).Sum", "(*crypto/sha512.digest).Sum", "(*golang.org/x/crypto/ripemd160.digest).Sum", "(*crypto/hmac.hmac).Sum":
		h := e.hasherOf(args[0])
		pre := e.sliceTerms(args[1])
		out := append(append([]*smt.Term{}, pre...), e.hashSum(h)...)
		return e.newByteSlice(out), true
	case "(*crypto/sha256.digest).Reset", "(*crypto/sha512.digest).Reset", "(*golang.org/x/crypto/ripemd160.digest).Reset", "(*crypto/hmac.hmac).Reset":
		h := e.hasherOf(args[0])
		h.data = nil
		return nil, true
	// ---- fmt / errors -------------------------------------------------------------
	case "fmt.Errorf":
		ef := e.P.FindFunc("errors", "New")
		return e.callFunction(ef, []Value{strConst("<fmt.Errorf>")}), true
	case "fmt.Sprintf", "fmt.Sprint", "fmt.Sprintln":
		return strConst("<fmt>"), true
	case "fmt.Println", "fmt.Printf", "fmt.Print", "fmt.Fprintf", "fmt.Fprintln":
		return Tuple{smt.BVC(64, 0), &Iface{}}, true
	// ---- strings / bytes ------------------------------------------------------------
	case "strings.ToLower":
		s := args[0].(*Str)
		e.asciiOnly(s)
		return &Str{B: mapBytes(s.B, lowerByte)}, true
	case "strings.ToUpper":
		s := args[0].(*Str)
		e.asciiOnly(s)
		return &Str{B: mapBytes(s.B, upperByte)}, true
	case "strings.EqualFold":
		a, b := args[0].(*Str), args[1].(*Str)
		e.asciiOnly(a)
		e.asciiOnly(b)
		return strEq(&Str{B: mapBytes(a.B, lowerByte)}, &Str{B: mapBytes(b.B, lowerByte)}), true
	case "strings.IndexByte", "strings.LastIndexByte", "bytes.IndexByte":
		bs := e.sliceTerms(args[0])
		c := args[1].(*smt.Term)
		res := smt.BVC(64, ^uint64(0))
		if name == "strings.LastIndexByte" {
			for i := 0; i < len(bs); i++ {
				res = smt.Ite(smt.Eq(bs[i], c), smt.BVC(64, uint64(i)), res)
			}
		} else {
			for i := len(bs) - 1; i >= 0; i-- {
				res = smt.Ite(smt.Eq(bs[i], c), smt.BVC(64, uint64(i)), res)
			}
		}
		return res, true
	case "bytes.Equal":
		a, b := e.sliceTerms(args[0]), e.sliceTerms(args[1])
		return strEq(&Str{B: a}, &Str{B: b}), true
	case "bytes.Compare":
		a, b := e.sliceTerms(args[0]), e.sliceTerms(args[1])
		lt := lexLess(a, b, false)
		eq := strEq(&Str{B: a}, &Str{B: b})
		return smt.Ite(eq, smt.BVC(64, 0), smt.Ite(lt, smt.BVC(64, ^uint64(0)), smt.BVC(64, 1))), true
	case "strings.HasPrefix":
		a, b := args[0].(*Str), args[1].(*Str)
		if len(a.B) < len(b.B) {
			return smt.False, true
		}
		return strEq(&Str{B: a.B[:len(b.B)]}, b), true
	case "sort.Slice", "sort.SliceStable":
		ifc, ok := args[0].(*Iface)
		if !ok {
			e.unsupported("sort.Slice of %T", args[0])
		}
		sl, ok := ifc.V.(*Slice)
		if !ok || sl.Buf != nil {
			e.unsupported("sort.Slice of non-slice")
		}
		less := args[1].(*Closure)
		// insertion sort, exactly as the std library does for fewer than 12 elements
		if sl.Len > 12 {
			e.unsupported("sort.Slice of more than 12 elements")
		}
		for i := 1; i < sl.Len; i++ {
			for j := i; j > 0; j-- {
				r := e.callClosure(less, []Value{smt.BVC(64, uint64(j)), smt.BVC(64, uint64(j-1))}).(*smt.Term)
				if !e.forkBool(r) {
					break
				}
				a, b := sl.Back[sl.Off+j], sl.Back[sl.Off+j-1]
				va, vb := e.load(a), e.load(b)
				e.store(a, vb)
				e.store(b, va)
			}
		}
		return nil, true
	// ---- sync ----------------------------------------------------------------------------
	case "(*sync.Mutex).Lock", "(*sync.RWMutex).Lock", "(*sync.RWMutex).RLock":
		e.lockOp(args[0], true, name)
		return nil, true
	case "(*sync.Mutex).Unlock", "(*sync.RWMutex).Unlock", "(*sync.RWMutex).RUnlock":
		e.lockOp(args[0], false, name)
		return nil, true
	// sync.Pool: Put pushes on a per-pool ghost stack; Get nondeterministically pops the most recent
	// item or builds a fresh one with New (both are legal behaviours of the real pool, which may
	// drop items at any time) - so state left in a recycled object is visible to the next user
	case "(*sync.Pool).Put":
		p, ok := args[0].(*Pointer)
		if !ok || p.C == nil {
			e.unsupported("sync.Pool.Put on %T", args[0])
		}
		if e.pools == nil {
			e.pools = map[*Cell][]Value{}
		}
		e.pools[p.C] = append(e.pools[p.C], args[1])
		return nil, true
	case "(*sync.Pool).Get":
		p, ok := args[0].(*Pointer)
		if !ok || p.C == nil || len(p.C.Sub) < 6 {
			e.unsupported("sync.Pool.Get on %T", args[0])
		}
		if items := e.pools[p.C]; len(items) > 0 {
			if e.choose(2, nil) == 0 {
				it := items[len(items)-1]
				e.pools[p.C] = items[:len(items)-1]
				return it, true
			}
		}
		if c, ok := e.load(p.C.Sub[5]).(*Closure); ok && c != nil && c.Fn != nil {
			return e.callClosure(c, nil), true
		}
		return &Iface{}, true
	}
	if r, ok := e.intrinsicBig(name, fn, args); ok {
		return r, true
	}
	if r, ok := e.intrinsicMisc(name, fn, args); ok {
		return r, true
	}
	return nil, false
}

func (e *Exec) asciiOnly(s *Str) {
	for _, b := range s.B {
		if smt.UMax(b) >= 0x80 {
			if e.feasibleStrict(smt.BvCmp(smt.OBvUle, smt.BVC(8, 0x80), b)) {
				e.unsupported("non-ASCII byte in case-folding intrinsic")
			}
		}
	}
}

func mapBytes(bs []*smt.Term, f func(*smt.Term) *smt.Term) []*smt.Term {
	out := make([]*smt.Term, len(bs))
	for i, b := range bs {
		out[i] = f(b)
	}
	return out
}

var lowerTab, upperTab [256]uint64

func init() {
	for i := 0; i < 256; i++ {
		lowerTab[i], upperTab[i] = uint64(i), uint64(i)
		if i >= 'A' && i <= 'Z' {
			lowerTab[i] = uint64(i + 32)
		}
		if i >= 'a' && i <= 'z' {
			upperTab[i] = uint64(i - 32)
		}
	}
}

// lowerByte: ASCII lower-casing (bytes >= 0x80 are left alone; callers that need full
// Unicode semantics must check asciiOnly).
func lowerByte(b *smt.Term) *smt.Term {
	if v, ok := b.ConstU(); ok {
		return byteConst(byte(lowerTab[v]))
	}
	if b.Op == smt.OTable {
		return smt.Table(lowerTab[:], 8, b)
	}
	isUp := smt.And(smt.BvCmp(smt.OBvUle, smt.BVC(8, 'A'), b), smt.BvCmp(smt.OBvUle, b, smt.BVC(8, 'Z')))
	return smt.Ite(isUp, smt.BvBin(smt.OBvAdd, b, smt.BVC(8, 32)), b)
}

func upperByte(b *smt.Term) *smt.Term {
	if v, ok := b.ConstU(); ok {
		return byteConst(byte(upperTab[v]))
	}
	if b.Op == smt.OTable {
		return smt.Table(upperTab[:], 8, b)
	}
	isLo := smt.And(smt.BvCmp(smt.OBvUle, smt.BVC(8, 'a'), b), smt.BvCmp(smt.OBvUle, b, smt.BVC(8, 'z')))
	return smt.Ite(isLo, smt.BvBin(smt.OBvSub, b, smt.BVC(8, 32)), b)
}

// ---- lock discipline ghost state -------------------------------------------------------------

type LockEvent struct {
	Op    string
	Where string
	Held  bool
}

func (e *Exec) lockOp(recv Value, lock bool, name string) {
	p, ok := recv.(*Pointer)
	if !ok || p.C == nil {
		e.unsupported("lock on %T", recv)
	}
	if e.lockHeld == nil {
		e.lockHeld = map[*Cell]int{}
	}
	read := strings.HasSuffix(name, ".RLock") || strings.HasSuffix(name, ".RUnlock")
	held := e.lockHeld[p.C]
	if lock {
		if held != 0 {
			e.check("assert", "lock:double-lock", smt.False)
		}
		if read {
			e.lockHeld[p.C] = 1
		} else {
			e.lockHeld[p.C] = 2
		}
	} else {
		if held == 0 {
			e.check("assert", "lock:unlock-of-unlocked", smt.False)
		}
		e.lockHeld[p.C] = 0
	}
}
// ufCall replaces a call by an uninterpreted function of its scalar and byte-slice arguments.
func (e *Exec) ufCall(fn *ssa.Function, args []Value) Value {
	var ts []*smt.Term
	var logArgs [][]*smt.Term
	shape := ""
	for _, a := range args {
		switch x := a.(type) {
		case *smt.Term:
			ts = append(ts, x)
			shape += "s"
		case *Slice, *Str:
			bs := e.sliceTerms(x)
			logArgs = append(logArgs, bs)
			shape += fmt.Sprintf("b%d", len(bs))
			if len(bs) > 0 {
				ts = append(ts, concatBytes(bs))
			}
		case *Pointer:
			// pointer to a byte array
			if x.C == nil || x.C.Sub == nil {
				e.unsupported("UF call %s with pointer argument", fn.Name())
			}
			var bs []*smt.Term
			for _, c := range x.C.Sub {
				t, ok := e.load(c).(*smt.Term)
				if !ok {
					e.unsupported("UF call %s: pointer to non-byte array", fn.Name())
				}
				bs = append(bs, t)
			}
			logArgs = append(logArgs, bs)
			shape += fmt.Sprintf("p%d", len(bs))
			if len(bs) > 0 {
				ts = append(ts, concatBytes(bs))
			}
		default:
			e.unsupported("UF call %s with argument %T", fn.Name(), a)
		}
	}
	res := fn.Signature.Results()
	if res.Len() != 1 || !isScalar(res.At(0).Type()) {
		e.unsupported("UF call %s: unsupported result", fn.Name())
	}
	name := "uf_" + fn.Name() + "_" + shape
	if e.ufSeen == nil {
		e.ufSeen = map[string]bool{}
	}
	e.ufSeen[name] = true
	app := smt.App(name, sortOf(res.At(0).Type()), ts...)
	if len(e.ufLog) < 64 {
		e.ufLog = append(e.ufLog, ufLogEntry{name: fn.String(), args: logArgs, res: app})
	}
	return app
}
