// Package sym is a bounded symbolic executor over go/ssa producing SMT terms.
package sym

import (
	"fmt"
	"go/types"

	"golang.org/x/tools/go/ssa"

	"verif/engine/smt"
)

type Value interface{}

// Cell is a memory location: either a leaf holding a Value or an aggregate of sub-cells.
type Cell struct {
	V    Value
	Sub  []*Cell
	base bool // belongs to the shared initial heap (copy-on-write through Exec.ovl)
	id   int
}

type Pointer struct {
	C *Cell // nil => nil pointer (unless Arr != nil)
	// symbolic element pointer: one of Arr[0..len) selected by Idx (BV64)
	Arr []*Cell
	Idx *smt.Term
	// pointer into a symbolic buffer
	Buf    *SymBuf
	BufIdx *smt.Term
	// function-valued or opaque target
	T types.Type
}

type Slice struct {
	Back []*Cell // whole backing array
	Off  int
	Len  int
	Cap  int
	Nil  bool
	Buf  *SymBuf // symbolic-length byte buffer (Back unused)
}

// SymBuf is a byte buffer of symbolic length backed by an SMT array.
type SymBuf struct {
	Arr *smt.Term // current contents (Array BV32 -> BV8)
	Len *smt.Term // BV64 length
}

type Str struct {
	B []*smt.Term // BV8 each
}

type Iface struct {
	T types.Type // nil => nil interface
	V Value
}

type Agg struct {
	E []Value
}

type MapObj struct {
	Keys []Value
	Vals []Value
	base bool
}

type Map struct {
	M *MapObj // nil => nil map
}

type Closure struct {
	Fn   *ssa.Function
	Bind []Value
	Bi   *ssa.Builtin
}

type Tuple []Value

type Opaque struct{ Why string }

// MapIter is the state of a range-over-map/string.
type MapIter struct {
	M    *MapObj
	Keys []Value // snapshot of the keys when the range started
	S    *Str
	Pos  int
}

// BigInt is the value behind *big.Int in Int mode: a cell holding an Int term.
// (big.Int objects are ordinary heap objects whose root cell V is a *smt.Term of sort Int.)

func isNilPtr(p *Pointer) bool { return p.C == nil && p.Arr == nil && p.Buf == nil }

func intWidth(t types.Type) (w int, signed bool, ok bool) {
	b, isB := t.Underlying().(*types.Basic)
	if !isB {
		return 0, false, false
	}
	switch b.Kind() {
	case types.Int8:
		return 8, true, true
	case types.Int16:
		return 16, true, true
	case types.Int32:
		return 32, true, true
	case types.Int64, types.Int:
		return 64, true, true
	case types.Uint8:
		return 8, false, true
	case types.Uint16:
		return 16, false, true
	case types.Uint32:
		return 32, false, true
	case types.Uint64, types.Uint, types.Uintptr:
		return 64, false, true
	case types.UntypedInt:
		return 64, true, true
	case types.UntypedRune:
		return 32, true, true
	}
	return 0, false, false
}

func isBool(t types.Type) bool {
	b, ok := t.Underlying().(*types.Basic)
	return ok && (b.Kind() == types.Bool || b.Kind() == types.UntypedBool)
}

func isFloat(t types.Type) bool {
	b, ok := t.Underlying().(*types.Basic)
	return ok && (b.Kind() == types.Float64 || b.Kind() == types.Float32 || b.Kind() == types.UntypedFloat)
}

func isString(t types.Type) bool {
	b, ok := t.Underlying().(*types.Basic)
	return ok && (b.Kind() == types.String || b.Kind() == types.UntypedString)
}

// isScalar: values represented by a single *smt.Term.
func isScalar(t types.Type) bool {
	if _, _, ok := intWidth(t); ok {
		return true
	}
	return isBool(t) || isFloat(t)
}

func sortOf(t types.Type) smt.Sort {
	if w, _, ok := intWidth(t); ok {
		return smt.BV(w)
	}
	if isBool(t) {
		return smt.Bool
	}
	if isFloat(t) {
		return smt.FP64
	}
	panic(fmt.Sprintf("sortOf %v", t))
}

// zeroValue returns the zero Value (register representation) of a type.
func zeroValue(t types.Type) Value {
	switch u := t.Underlying().(type) {
	case *types.Basic:
		if w, _, ok := intWidth(t); ok {
			return smt.BVC(w, 0)
		}
		if isBool(t) {
			return smt.False
		}
		if isFloat(t) {
			return smt.FPC(0)
		}
		if isString(t) {
			return &Str{}
		}
		if u.Kind() == types.UnsafePointer {
			return &Pointer{}
		}
		if u.Kind() == types.UntypedNil {
			return &Pointer{}
		}
		if u.Kind() == types.Complex128 || u.Kind() == types.Complex64 {
			return &Opaque{"complex"}
		}
	case *types.Pointer:
		return &Pointer{}
	case *types.Slice:
		return &Slice{Nil: true}
	case *types.Interface:
		return &Iface{}
	case *types.Map:
		return &Map{}
	case *types.Signature:
		return &Closure{}
	case *types.Chan:
		return &Opaque{"chan"}
	case *types.Struct:
		a := &Agg{E: make([]Value, u.NumFields())}
		for i := range a.E {
			a.E[i] = zeroValue(u.Field(i).Type())
		}
		return a
	case *types.Array:
		a := &Agg{E: make([]Value, int(u.Len()))}
		if len(a.E) > 0 {
			z := zeroValue(u.Elem())
			if _, ok := z.(*smt.Term); ok {
				for i := range a.E {
					a.E[i] = z
				}
			} else {
				for i := range a.E {
					a.E[i] = zeroValue(u.Elem())
				}
			}
		}
		return a
	case *types.Tuple:
		tp := make(Tuple, u.Len())
		for i := range tp {
			tp[i] = zeroValue(u.At(i).Type())
		}
		return tp
	}
	panic(fmt.Sprintf("zeroValue: unsupported type %v (%T)", t, t.Underlying()))
}

// newCell creates a cell tree holding v (an Agg becomes sub-cells).
func newCell(v Value) *Cell {
	c := &Cell{}
	if a, ok := v.(*Agg); ok {
		c.Sub = make([]*Cell, len(a.E))
		for i, e := range a.E {
			c.Sub[i] = newCell(e)
		}
		if c.Sub == nil {
			c.Sub = []*Cell{}
		}
		return c
	}
	c.V = v
	return c
}

func newCells(n int, mk func(i int) Value) []*Cell {
	cs := make([]*Cell, n)
	for i := range cs {
		cs[i] = newCell(mk(i))
	}
	return cs
}
