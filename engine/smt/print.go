package smt

import (
	"fmt"
	"math/big"
	"sort"
	"strings"
)

// Script is a printable query: declarations are derived from the terms.
type Script struct {
	Asserts []*Term
	Extra   []string // raw SMT-LIB lines appended after declarations (axioms)
	Get     []*Term  // terms whose values are requested after sat
}

type printer struct {
	sb    strings.Builder
	names map[*Term]string
	decl  map[string]string
	order []string
	refs  map[*Term]int
	atoms map[string]bool
}

func bvLit(w int, v uint64, b *big.Int) string {
	if b != nil {
		s := b.Text(2)
		if len(s) < w {
			s = strings.Repeat("0", w-len(s)) + s
		}
		return "#b" + s
	}
	if w%4 == 0 {
		return fmt.Sprintf("#x%0*x", w/4, v)
	}
	return fmt.Sprintf("#b%0*b", w, v)
}

func (p *printer) count(t *Term) {
	p.refs[t]++
	if p.refs[t] > 1 {
		return
	}
	for _, a := range t.Args {
		p.count(a)
	}
}

func quoteName(n string) string {
	return "|" + strings.ReplaceAll(n, "|", "!") + "|"
}

func (p *printer) declare(name, decl string) {
	if _, ok := p.decl[name]; ok {
		return
	}
	p.decl[name] = decl
	p.order = append(p.order, name)
}

func (p *printer) tableExpr(tab []uint64, w int, idx string, iw int, lo, n int, bit int) string {
	// uniform?
	uni := true
	for i := lo + 1; i < lo+n; i++ {
		if tab[i] != tab[lo] {
			uni = false
			break
		}
	}
	if uni {
		return bvLit(w, tab[lo], nil)
	}
	half := n / 2
	l := p.tableExpr(tab, w, idx, iw, lo, half, bit-1)
	h := p.tableExpr(tab, w, idx, iw, lo+half, half, bit-1)
	return fmt.Sprintf("(ite (= ((_ extract %d %d) %s) #b1) %s %s)", bit, bit, idx, h, l)
}

func (p *printer) atom(a Atom) string {
	if a.T.Sort.K == KBool {
		return p.expr(a.T)
	}
	key := fmt.Sprintf("a%d_%d", a.T.id, a.Bit)
	if p.atoms == nil {
		p.atoms = map[string]bool{}
	}
	if !p.atoms[key] {
		p.atoms[key] = true
		fmt.Fprintf(&p.sb, "(define-fun %s () Bool (= ((_ extract %d %d) %s) #b1))\n", key, a.Bit, a.Bit, p.expr(a.T))
	}
	return key
}

var opNames = map[Op]string{
	ONot: "not", OAnd: "and", OOr: "or", OXorB: "xor", OIte: "ite", OEq: "=",
	OBvAdd: "bvadd", OBvSub: "bvsub", OBvMul: "bvmul", OBvUDiv: "bvudiv", OBvURem: "bvurem",
	OBvSDiv: "bvsdiv", OBvSRem: "bvsrem", OBvAnd: "bvand", OBvOr: "bvor", OBvXor: "bvxor",
	OBvShl: "bvshl", OBvLshr: "bvlshr", OBvAshr: "bvashr", OBvNeg: "bvneg", OBvNot: "bvnot",
	OBvUlt: "bvult", OBvUle: "bvule", OBvSlt: "bvslt", OBvSle: "bvsle", OConcat: "concat",
	OIntAdd: "+", OIntSub: "-", OIntMul: "*", OIntDiv: "div", OIntMod: "mod", OIntLe: "<=", OIntLt: "<",
	OIntNeg: "-", OSelect: "select", OStore: "store",
	OFpNeg: "fp.neg", OFpAbs: "fp.abs", OFpLt: "fp.lt", OFpLe: "fp.leq", OFpEq: "fp.eq",
	OFpIsNaN: "fp.isNaN", OFpIsInf: "fp.isInfinite",
}

func (p *printer) expr(t *Term) string {
	if n, ok := p.names[t]; ok {
		return n
	}
	s := p.raw(t)
	leaf := len(t.Args) == 0
	if !leaf && (p.refs[t] > 1 || len(s) > 200) {
		name := fmt.Sprintf("t%d", t.id)
		fmt.Fprintf(&p.sb, "(define-fun %s () %s %s)\n", name, t.Sort, s)
		p.names[t] = name
		return name
	}
	p.names[t] = s
	return s
}

func (p *printer) raw(t *Term) string {
	switch t.Op {
	case OConst:
		switch t.Sort.K {
		case KBool:
			if t.Val == 1 {
				return "true"
			}
			return "false"
		case KBV:
			return bvLit(t.Sort.W, t.Val, t.Big)
		case KInt:
			if t.Big.Sign() < 0 {
				return "(- " + new(big.Int).Neg(t.Big).String() + ")"
			}
			return t.Big.String()
		case KFP:
			return fmt.Sprintf("(fp #b%b #b%011b #b%052b)", t.Val>>63, (t.Val>>52)&0x7ff, t.Val&((1<<52)-1))
		}
	case OVar:
		q := quoteName(t.Name)
		p.declare(q, fmt.Sprintf("(declare-const %s %s)", q, t.Sort))
		return q
	case OApp:
		q := quoteName(t.Name)
		var as []string
		var ss []string
		for _, a := range t.Args {
			as = append(as, p.expr(a))
			ss = append(ss, a.Sort.String())
		}
		if t.Name == "bv2nat" && len(as) == 1 {
			return "(bv2nat " + as[0] + ")" // built-in conversion, not an uninterpreted function
		}
		p.declare(q, fmt.Sprintf("(declare-fun %s (%s) %s)", q, strings.Join(ss, " "), t.Sort))
		if len(as) == 0 {
			return q
		}
		return "(" + q + " " + strings.Join(as, " ") + ")"
	case OExtract:
		return fmt.Sprintf("((_ extract %d %d) %s)", t.P1, t.P2, p.expr(t.Args[0]))
	case OZext:
		return fmt.Sprintf("((_ zero_extend %d) %s)", t.Sort.W-t.Args[0].Sort.W, p.expr(t.Args[0]))
	case OSext:
		return fmt.Sprintf("((_ sign_extend %d) %s)", t.Sort.W-t.Args[0].Sort.W, p.expr(t.Args[0]))
	case OTable:
		idx := p.expr(t.Args[0])
		iw := t.Args[0].Sort.W
		return p.tableExpr(t.Tab, t.Sort.W, idx, iw, 0, len(t.Tab), iw-1)
	case OFpAdd, OFpSub, OFpMul, OFpDiv:
		n := map[Op]string{OFpAdd: "fp.add", OFpSub: "fp.sub", OFpMul: "fp.mul", OFpDiv: "fp.div"}[t.Op]
		return fmt.Sprintf("(%s RNE %s %s)", n, p.expr(t.Args[0]), p.expr(t.Args[1]))
	case OFpMulRTP:
		return fmt.Sprintf("(fp.mul RTP %s %s)", p.expr(t.Args[0]), p.expr(t.Args[1]))
	case OFpAddRTP:
		return fmt.Sprintf("(fp.add RTP %s %s)", p.expr(t.Args[0]), p.expr(t.Args[1]))
	case OFpFma:
		return fmt.Sprintf("(fp.fma RNE %s %s %s)", p.expr(t.Args[0]), p.expr(t.Args[1]), p.expr(t.Args[2]))
	case OFpToSBV:
		return fmt.Sprintf("((_ fp.to_sbv %d) RTZ %s)", t.Sort.W, p.expr(t.Args[0]))
	case OFpToUBV:
		return fmt.Sprintf("((_ fp.to_ubv %d) RTZ %s)", t.Sort.W, p.expr(t.Args[0]))
	case OFpFromSBV:
		return fmt.Sprintf("((_ to_fp 11 53) RNE %s)", p.expr(t.Args[0]))
	case OFpFromUBV:
		return fmt.Sprintf("((_ to_fp_unsigned 11 53) RNE %s)", p.expr(t.Args[0]))
	case OFpFromBits:
		return fmt.Sprintf("((_ to_fp 11 53) %s)", p.expr(t.Args[0]))
	case OFpRoundRNA:
		return fmt.Sprintf("(fp.roundToIntegral RNA %s)", p.expr(t.Args[0]))
	case OFpRoundRTZ:
		return fmt.Sprintf("(fp.roundToIntegral RTZ %s)", p.expr(t.Args[0]))
	case OLinEq:
		var parts []string
		for _, a := range t.LinAtoms {
			parts = append(parts, p.atom(a))
		}
		c := "false"
		if t.Val == 1 {
			c = "true"
		}
		if len(parts) == 1 {
			return "(= " + parts[0] + " " + c + ")"
		}
		return "(= (xor " + strings.Join(parts, " ") + ") " + c + ")"
	case OConstArr:
		return fmt.Sprintf("((as const (Array (_ BitVec 32) (_ BitVec 8))) #x%02x)", t.Val)
	case OBv2Nat:
		return fmt.Sprintf("(bv2nat %s)", p.expr(t.Args[0]))
	case ONat2Bv:
		return fmt.Sprintf("((_ int2bv %d) %s)", t.Sort.W, p.expr(t.Args[0]))
	}
	name, ok := opNames[t.Op]
	if !ok {
		panic(fmt.Sprintf("print: unknown op %d", t.Op))
	}
	var as []string
	for _, a := range t.Args {
		as = append(as, p.expr(a))
	}
	return "(" + name + " " + strings.Join(as, " ") + ")"
}

// Render produces the SMT-LIB text for a script (without check-sat).
func (s *Script) Render() (text string, getNames []string) {
	p := &printer{names: map[*Term]string{}, decl: map[string]string{}, refs: map[*Term]int{}}
	for _, a := range s.Asserts {
		p.count(a)
	}
	for _, g := range s.Get {
		p.count(g)
	}
	var asserts []string
	// Declarations must precede define-funs that use them; we emit define-funs into p.sb
	// as we go and declarations are gathered separately, then stitched.
	for _, a := range s.Asserts {
		if a.IsTrue() {
			continue
		}
		asserts = append(asserts, "(assert "+p.expr(a)+")")
	}
	for _, g := range s.Get {
		getNames = append(getNames, p.expr(g))
	}
	var out strings.Builder
	decls := append([]string(nil), p.order...)
	_ = sort.Strings
	for _, n := range decls {
		out.WriteString(p.decl[n])
		out.WriteByte('\n')
	}
	for _, e := range s.Extra {
		out.WriteString(e)
		out.WriteByte('\n')
	}
	out.WriteString(p.sb.String())
	for _, a := range asserts {
		out.WriteString(a)
		out.WriteByte('\n')
	}
	return out.String(), getNames
}
