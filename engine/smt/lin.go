package smt

import "sort"

// GF(2)-affine normal form of bit-vector terms: every bit is a constant xor a set of atoms
// (atom = one bit of a non-linear sub-term). Used to decide checksum-style equalities
// syntactically and to hand the solver pure XOR equations.

type Atom struct {
	T   *Term
	Bit int
}

type LinBit struct {
	C     bool
	Atoms []Atom // sorted by (T.id, Bit), unique
}

type LinVec struct {
	Bits       []LinBit // index 0 = least significant
	Nontrivial bool     // built through xor / linear ite (worth using)
}

func atomLess(a, b Atom) bool {
	if a.T.id != b.T.id {
		return a.T.id < b.T.id
	}
	return a.Bit < b.Bit
}

func xorAtoms(a, b []Atom) []Atom {
	if len(a) == 0 {
		return b
	}
	if len(b) == 0 {
		return a
	}
	out := make([]Atom, 0, len(a)+len(b))
	i, j := 0, 0
	for i < len(a) && j < len(b) {
		switch {
		case a[i] == b[j]:
			i++
			j++
		case atomLess(a[i], b[j]):
			out = append(out, a[i])
			i++
		default:
			out = append(out, b[j])
			j++
		}
	}
	out = append(out, a[i:]...)
	out = append(out, b[j:]...)
	return out
}

func xorBit(a, b LinBit) LinBit {
	return LinBit{C: a.C != b.C, Atoms: xorAtoms(a.Atoms, b.Atoms)}
}

func atomVec(t *Term) *LinVec {
	w := t.Sort.W
	v := &LinVec{Bits: make([]LinBit, w)}
	for i := 0; i < w; i++ {
		v.Bits[i] = LinBit{Atoms: []Atom{{t, i}}}
	}
	return v
}

const linMaxW = 64

// Lin returns the affine form of a BV term (nil for wide or non-BV terms).
func Lin(t *Term) *LinVec {
	if t.Sort.K != KBV || t.Sort.W > linMaxW {
		return nil
	}
	if t.lin != nil {
		return t.lin
	}
	v := computeLin(t)
	if t.Op != OConst {
		t.lin = v
	}
	return v
}

func computeLin(t *Term) *LinVec {
	w := t.Sort.W
	switch t.Op {
	case OConst:
		v := &LinVec{Bits: make([]LinBit, w)}
		for i := 0; i < w; i++ {
			v.Bits[i].C = (t.Val>>uint(i))&1 == 1
		}
		return v
	case OBvXor:
		a, b := Lin(t.Args[0]), Lin(t.Args[1])
		v := &LinVec{Bits: make([]LinBit, w), Nontrivial: true}
		for i := range v.Bits {
			v.Bits[i] = xorBit(a.Bits[i], b.Bits[i])
		}
		return v
	case OBvNot:
		a := Lin(t.Args[0])
		v := &LinVec{Bits: make([]LinBit, w), Nontrivial: a.Nontrivial}
		for i := range v.Bits {
			v.Bits[i] = LinBit{C: !a.Bits[i].C, Atoms: a.Bits[i].Atoms}
		}
		return v
	case OBvAnd, OBvOr:
		x, y := t.Args[0], t.Args[1]
		if x.Op == OConst {
			x, y = y, x
		}
		if y.Op == OConst {
			a := Lin(x)
			v := &LinVec{Bits: make([]LinBit, w), Nontrivial: a.Nontrivial}
			for i := range v.Bits {
				cb := (y.Val>>uint(i))&1 == 1
				if t.Op == OBvAnd {
					if cb {
						v.Bits[i] = a.Bits[i]
					}
				} else {
					if cb {
						v.Bits[i] = LinBit{C: true}
					} else {
						v.Bits[i] = a.Bits[i]
					}
				}
			}
			return v
		}
	case OExtract:
		a := Lin(t.Args[0])
		if a == nil {
			break
		}
		v := &LinVec{Bits: make([]LinBit, w), Nontrivial: a.Nontrivial}
		copy(v.Bits, a.Bits[t.P2:t.P1+1])
		return v
	case OZext:
		a := Lin(t.Args[0])
		v := &LinVec{Bits: make([]LinBit, w), Nontrivial: a.Nontrivial}
		copy(v.Bits, a.Bits)
		return v
	case OConcat:
		hi, lo := Lin(t.Args[0]), Lin(t.Args[1])
		v := &LinVec{Bits: make([]LinBit, w), Nontrivial: hi.Nontrivial || lo.Nontrivial}
		copy(v.Bits, lo.Bits)
		copy(v.Bits[len(lo.Bits):], hi.Bits)
		return v
	case OIte:
		a, b := Lin(t.Args[1]), Lin(t.Args[2])
		cb := LinBool(t.Args[0])
		if cb != nil {
			// linear if a^b is constant
			ok := true
			d := make([]bool, w)
			for i := 0; i < w; i++ {
				x := xorBit(a.Bits[i], b.Bits[i])
				if len(x.Atoms) != 0 {
					ok = false
					break
				}
				d[i] = x.C
			}
			if ok {
				v := &LinVec{Bits: make([]LinBit, w), Nontrivial: true}
				for i := 0; i < w; i++ {
					if d[i] {
						v.Bits[i] = xorBit(b.Bits[i], *cb)
					} else {
						v.Bits[i] = b.Bits[i]
					}
				}
				return v
			}
		}
	}
	return atomVec(t)
}

// LinBool returns the affine form of a Boolean term if it is a single GF(2)-affine bit.
func LinBool(c *Term) *LinBit {
	switch c.Op {
	case OConst:
		return &LinBit{C: c.Val == 1}
	case OVar:
		return &LinBit{Atoms: []Atom{{c, 0}}}
	case ONot:
		x := LinBool(c.Args[0])
		if x == nil {
			return nil
		}
		return &LinBit{C: !x.C, Atoms: x.Atoms}
	case OXorB:
		x, y := LinBool(c.Args[0]), LinBool(c.Args[1])
		if x == nil || y == nil {
			return nil
		}
		r := xorBit(*x, *y)
		return &r
	case OLinEq:
		return &LinBit{C: c.Val == 0, Atoms: c.LinAtoms}
	case OEq:
		a, b := c.Args[0], c.Args[1]
		if a.Sort.K == KBV && a.Sort.W == 1 {
			la, lb := Lin(a), Lin(b)
			r := xorBit(la.Bits[0], lb.Bits[0])
			r.C = !r.C
			return &r
		}
		if a.Sort.K == KBool {
			x, y := LinBool(a), LinBool(b)
			if x == nil || y == nil {
				return nil
			}
			r := xorBit(*x, *y)
			r.C = !r.C
			return &r
		}
	}
	return nil
}

// LinEq is the term "xor of atoms = C".
func linEqTerm(b LinBit) *Term {
	if len(b.Atoms) == 0 {
		return BoolC(!b.C)
	}
	t := mk(OLinEq, Bool)
	t.LinAtoms = b.Atoms
	t.Val = 0
	if b.C {
		t.Val = 1
	}
	// children for reference counting / traversal
	seen := map[*Term]bool{}
	for _, a := range b.Atoms {
		if !seen[a.T] {
			seen[a.T] = true
			t.Args = append(t.Args, a.T)
		}
	}
	return t
}

// linEq tries to decide / bit-slice a = b. Returns nil when the affine view is not useful.
func linEq(a, b *Term) *Term {
	if a.Sort.K != KBV || a.Sort.W > linMaxW {
		return nil
	}
	if !linCandidate(a) && !linCandidate(b) {
		return nil
	}
	la, lb := Lin(a), Lin(b)
	w := a.Sort.W
	var eqs []*Term
	for i := 0; i < w; i++ {
		d := xorBit(la.Bits[i], lb.Bits[i])
		if len(d.Atoms) == 0 {
			if d.C {
				return False
			}
			continue
		}
		eqs = append(eqs, linEqTerm(d))
	}
	if len(eqs) > 0 && !la.Nontrivial && !lb.Nontrivial {
		return nil
	}
	// canonical order helps nothing semantically but keeps output stable
	sort.SliceStable(eqs, func(i, j int) bool { return len(eqs[i].LinAtoms) < len(eqs[j].LinAtoms) })
	return And(eqs...)
}

func linCandidate(t *Term) bool {
	switch t.Op {
	case OBvXor, OIte, OExtract, OConcat, OZext, OBvAnd, OBvOr, OBvNot:
		return true
	}
	return false
}
