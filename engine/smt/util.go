package smt

import "os"

func writeFile(path, s string) { _ = os.WriteFile(path, []byte(s), 0o644) }
