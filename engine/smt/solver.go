package smt

import (
	"bufio"
	"fmt"
	"io"
	"math/big"
	"os"
	"os/exec"
	"strings"
	"sync/atomic"
	"time"
)

type Result int

const (
	Unsat Result = iota
	Sat
	Unknown
)

func (r Result) String() string { return [...]string{"unsat", "sat", "unknown"}[r] }

// Solver wraps one long-lived solver process. Not safe for concurrent use.
type Solver struct {
	Backend string // z3 | z3new | cvc5
	cmd     *exec.Cmd
	in      io.WriteCloser
	out     *bufio.Reader
	Queries int
	Time    time.Duration
	DumpDir string
}

func NewSolver(backend string) *Solver {
	return &Solver{Backend: backend, DumpDir: os.Getenv("GOSMT_DUMP")}
}

func (s *Solver) start(timeoutMs int) error {
	var c *exec.Cmd
	switch s.Backend {
	case "z3":
		c = exec.Command("z3", "-in", "-smt2")
	case "z3new":
		c = exec.Command("z3-new", "-in", "-smt2")
	case "cvc5":
		c = exec.Command("cvc5", "--incremental", "--lang=smt2", "--produce-models", "--tlimit-per=1200000")
	default:
		return fmt.Errorf("unknown backend %s", s.Backend)
	}
	in, err := c.StdinPipe()
	if err != nil {
		return err
	}
	out, err := c.StdoutPipe()
	if err != nil {
		return err
	}
	c.Stderr = c.Stdout
	if err := c.Start(); err != nil {
		return err
	}
	s.cmd, s.in, s.out = c, in, bufio.NewReaderSize(out, 1<<20)
	return nil
}

func (s *Solver) Close() {
	if s.cmd != nil {
		s.in.Close()
		s.cmd.Process.Kill()
		s.cmd.Wait()
		s.cmd = nil
	}
}

var dumpCtr int64

type Answer struct {
	Res    Result
	Values []string          // values of Script.Get, in order
	Model  map[string]string // printed-name -> value text
	Err    string
	Millis int64
}

func (s *Solver) readUntil(marker string, deadline time.Duration) ([]string, bool) {
	type res struct {
		lines []string
		ok    bool
	}
	ch := make(chan res, 1)
	go func() {
		var lines []string
		for {
			l, err := s.out.ReadString('\n')
			if err != nil {
				ch <- res{lines, false}
				return
			}
			l = strings.TrimRight(l, "\r\n")
			if strings.Trim(l, "\"") == marker {
				ch <- res{lines, true}
				return
			}
			lines = append(lines, l)
		}
	}()
	select {
	case r := <-ch:
		return r.lines, r.ok
	case <-time.After(deadline):
		s.cmd.Process.Kill()
		r := <-ch
		s.cmd.Wait()
		s.cmd = nil
		return r.lines, false
	}
}

// Check runs one query in a fresh solver context.
func (s *Solver) Check(sc *Script, timeoutMs int) Answer {
	t0 := time.Now()
	defer func() { s.Queries++; s.Time += time.Since(t0) }()
	text, getNames := sc.Render()
	if s.cmd == nil {
		if err := s.start(timeoutMs); err != nil {
			return Answer{Res: Unknown, Err: err.Error()}
		}
	}
	var sb strings.Builder
	sb.WriteString("(reset)\n")
	switch s.Backend {
	case "z3", "z3new":
		fmt.Fprintf(&sb, "(set-option :timeout %d)\n", timeoutMs)
	case "cvc5":
		sb.WriteString("(set-logic ALL)\n")
	}
	sb.WriteString(text)
	sb.WriteString("(check-sat)\n(echo \"@@END\")\n")
	if s.DumpDir != "" {
		n := atomic.AddInt64(&dumpCtr, 1)
		writeFile(fmt.Sprintf("%s/q%06d.smt2", s.DumpDir, n), sb.String())
	}
	if _, err := io.WriteString(s.in, sb.String()); err != nil {
		s.Close()
		return Answer{Res: Unknown, Err: "write: " + err.Error()}
	}
	grace := 5000
	if s.Backend == "cvc5" {
		grace = 0
	}
	lines, ok := s.readUntil("@@END", time.Duration(timeoutMs+grace)*time.Millisecond)
	ans := Answer{Res: Unknown}
	if !ok {
		ans.Err = "solver died or timed out"
		ans.Millis = time.Since(t0).Milliseconds()
		return ans
	}
	verdict := ""
	for _, l := range lines {
		if strings.Contains(l, "(error") {
			ans.Err = l
		}
		switch strings.TrimSpace(l) {
		case "sat", "unsat", "unknown", "timeout":
			verdict = strings.TrimSpace(l)
		}
	}
	if ans.Err != "" {
		ans.Millis = time.Since(t0).Milliseconds()
		return ans
	}
	switch verdict {
	case "unsat":
		ans.Res = Unsat
	case "sat":
		ans.Res = Sat
		if len(getNames) > 0 {
			// ask in chunks to keep replies small
			ans.Model = map[string]string{}
			for i := 0; i < len(getNames); i += 200 {
				j := i + 200
				if j > len(getNames) {
					j = len(getNames)
				}
				req := "(get-value (" + strings.Join(getNames[i:j], " ") + "))\n(echo \"@@END\")\n"
				if _, err := io.WriteString(s.in, req); err != nil {
					s.Close()
					ans.Err = "write: " + err.Error()
					break
				}
				ml, ok := s.readUntil("@@END", 30*time.Second)
				if !ok {
					ans.Err = "model read failed"
					break
				}
				vals, err := parseValues(strings.Join(ml, "\n"), j-i)
				if err != nil {
					ans.Err = "model parse: " + err.Error()
					break
				}
				for k, v := range vals {
					ans.Model[getNames[i+k]] = v
				}
				ans.Values = append(ans.Values, vals...)
			}
		}
	default:
		ans.Res = Unknown
	}
	ans.Millis = time.Since(t0).Milliseconds()
	return ans
}

// CheckRaw runs a hand-written script (declarations + assertions, no check-sat).
func (s *Solver) CheckRaw(text string, getNames []string, timeoutMs int) Answer {
	t0 := time.Now()
	defer func() { s.Queries++; s.Time += time.Since(t0) }()
	if s.cmd == nil {
		if err := s.start(timeoutMs); err != nil {
			return Answer{Res: Unknown, Err: err.Error()}
		}
	}
	var sb strings.Builder
	sb.WriteString("(reset)\n")
	switch s.Backend {
	case "z3", "z3new":
		fmt.Fprintf(&sb, "(set-option :timeout %d)\n", timeoutMs)
	case "cvc5":
		sb.WriteString("(set-logic ALL)\n")
	}
	sb.WriteString(text)
	sb.WriteString("(check-sat)\n(echo \"@@END\")\n")
	if s.DumpDir != "" {
		n := atomic.AddInt64(&dumpCtr, 1)
		writeFile(fmt.Sprintf("%s/r%06d.smt2", s.DumpDir, n), sb.String())
	}
	if _, err := io.WriteString(s.in, sb.String()); err != nil {
		s.Close()
		return Answer{Res: Unknown, Err: "write: " + err.Error()}
	}
	lines, ok := s.readUntil("@@END", time.Duration(timeoutMs+5000)*time.Millisecond)
	ans := Answer{Res: Unknown}
	if !ok {
		ans.Err = "solver died or timed out"
		return ans
	}
	verdict := ""
	for _, l := range lines {
		if strings.Contains(l, "(error") {
			ans.Err = l
			return ans
		}
		switch strings.TrimSpace(l) {
		case "sat", "unsat", "unknown", "timeout":
			verdict = strings.TrimSpace(l)
		}
	}
	switch verdict {
	case "unsat":
		ans.Res = Unsat
	case "sat":
		ans.Res = Sat
		if len(getNames) > 0 {
			req := "(get-value (" + strings.Join(getNames, " ") + "))\n(echo \"@@END\")\n"
			io.WriteString(s.in, req)
			ml, ok := s.readUntil("@@END", 30*time.Second)
			if ok {
				if vals, err := parseValues(strings.Join(ml, "\n"), len(getNames)); err == nil {
					ans.Model = map[string]string{}
					for k, v := range vals {
						ans.Model[getNames[k]] = v
					}
				} else {
					ans.Err = err.Error()
				}
			}
		}
	}
	ans.Millis = time.Since(t0).Milliseconds()
	return ans
}

// parseValues parses "((e1 v1) (e2 v2) ...)" and returns the value texts in order.
func parseValues(s string, n int) ([]string, error) {
	toks := tokenize(s)
	pos := 0
	var parse func() (string, error)
	parse = func() (string, error) {
		if pos >= len(toks) {
			return "", fmt.Errorf("eof")
		}
		t := toks[pos]
		pos++
		if t != "(" {
			return t, nil
		}
		var parts []string
		for pos < len(toks) && toks[pos] != ")" {
			p, err := parse()
			if err != nil {
				return "", err
			}
			parts = append(parts, p)
		}
		pos++
		return "(" + strings.Join(parts, " ") + ")", nil
	}
	if len(toks) == 0 || toks[0] != "(" {
		return nil, fmt.Errorf("bad reply: %.200s", s)
	}
	pos = 1
	var out []string
	for pos < len(toks) && toks[pos] == "(" {
		pos++ // open pair
		if _, err := parse(); err != nil {
			return nil, err
		}
		v, err := parse()
		if err != nil {
			return nil, err
		}
		if pos >= len(toks) || toks[pos] != ")" {
			return nil, fmt.Errorf("bad pair")
		}
		pos++
		out = append(out, v)
	}
	if len(out) != n {
		return nil, fmt.Errorf("expected %d values got %d: %.300s", n, len(out), s)
	}
	return out, nil
}

func tokenize(s string) []string {
	var toks []string
	i := 0
	for i < len(s) {
		c := s[i]
		switch {
		case c == '(' || c == ')':
			toks = append(toks, string(c))
			i++
		case c == ' ' || c == '\n' || c == '\t' || c == '\r':
			i++
		case c == '|':
			j := i + 1
			for j < len(s) && s[j] != '|' {
				j++
			}
			toks = append(toks, s[i:j+1])
			i = j + 1
		default:
			j := i
			for j < len(s) && !strings.ContainsRune("() \n\t\r", rune(s[j])) {
				j++
			}
			toks = append(toks, s[i:j])
			i = j
		}
	}
	return toks
}

// ParseBV parses a BV/Int/Bool model value into a big.Int.
func ParseValue(v string) (*big.Int, bool) {
	v = strings.TrimSpace(v)
	switch {
	case v == "true":
		return big.NewInt(1), true
	case v == "false":
		return big.NewInt(0), true
	case strings.HasPrefix(v, "#x"):
		b, ok := new(big.Int).SetString(v[2:], 16)
		return b, ok
	case strings.HasPrefix(v, "#b"):
		b, ok := new(big.Int).SetString(v[2:], 2)
		return b, ok
	case strings.HasPrefix(v, "(- "):
		b, ok := new(big.Int).SetString(strings.TrimSuffix(v[3:], ")"), 10)
		if ok {
			b.Neg(b)
		}
		return b, ok
	case strings.HasPrefix(v, "(_ bv"):
		f := strings.Fields(v[5:])
		b, ok := new(big.Int).SetString(f[0], 10)
		return b, ok
	case strings.HasPrefix(v, "(fp "):
		f := strings.Fields(strings.TrimSuffix(v[4:], ")"))
		if len(f) != 3 {
			return nil, false
		}
		bitsStr := ""
		for _, p := range f {
			if strings.HasPrefix(p, "#b") {
				bitsStr += p[2:]
			} else if strings.HasPrefix(p, "#x") {
				x, ok := new(big.Int).SetString(p[2:], 16)
				if !ok {
					return nil, false
				}
				bs := x.Text(2)
				bitsStr += strings.Repeat("0", (len(p)-2)*4-len(bs)) + bs
			}
		}
		b, ok := new(big.Int).SetString(bitsStr, 2)
		return b, ok
	case strings.HasPrefix(v, "(_ +zero"):
		return big.NewInt(0), true
	case strings.HasPrefix(v, "(_ -zero"):
		return new(big.Int).Lsh(big.NewInt(1), 63), true
	case strings.HasPrefix(v, "(_ +oo"):
		return new(big.Int).SetUint64(0x7ff0000000000000), true
	case strings.HasPrefix(v, "(_ -oo"):
		return new(big.Int).SetUint64(0xfff0000000000000), true
	case strings.HasPrefix(v, "(_ NaN"):
		return new(big.Int).SetUint64(0x7ff8000000000001), true
	}
	b, ok := new(big.Int).SetString(v, 10)
	return b, ok
}
