// Package smt is a small term DAG with eager simplification and an SMT-LIB2 printer.
package smt

import (
	"fmt"
	"math/big"
	"math/bits"
	"sync/atomic"
)

type Kind uint8

const (
	KBool Kind = iota
	KBV
	KInt
	KFP  // float64
	KArr // (Array (_ BitVec 32) (_ BitVec 8))
)

type Sort struct {
	K Kind
	W int // KBV width
}

var (
	Bool  = Sort{K: KBool}
	Int   = Sort{K: KInt}
	FP64  = Sort{K: KFP}
	Arr32 = Sort{K: KArr}
)

func BV(w int) Sort { return Sort{K: KBV, W: w} }

func (s Sort) String() string {
	switch s.K {
	case KBool:
		return "Bool"
	case KBV:
		return fmt.Sprintf("(_ BitVec %d)", s.W)
	case KInt:
		return "Int"
	case KFP:
		return "(_ FloatingPoint 11 53)"
	case KArr:
		return "(Array (_ BitVec 32) (_ BitVec 8))"
	}
	return "?"
}

type Op uint8

const (
	OConst Op = iota
	OVar
	ONot
	OAnd
	OOr
	OXorB
	OIte
	OEq
	OBvAdd
	OBvSub
	OBvMul
	OBvUDiv
	OBvURem
	OBvSDiv
	OBvSRem
	OBvAnd
	OBvOr
	OBvXor
	OBvShl
	OBvLshr
	OBvAshr
	OBvNeg
	OBvNot
	OBvUlt
	OBvUle
	OBvSlt
	OBvSle
	OExtract // P1=hi P2=lo
	OConcat
	OZext // to Sort.W
	OSext
	OTable // Args[0]=idx; Tab = values (len = 2^w(idx)); Sort BV
	OApp   // uninterpreted function Name(Args...) : Sort
	OIntAdd
	OIntSub
	OIntMul
	OIntDiv
	OIntMod
	OIntLe
	OIntLt
	OIntNeg
	OSelect
	OStore
	// floating point (float64, RNE unless stated)
	OFpAdd
	OFpSub
	OFpMul
	OFpDiv
	OFpNeg
	OFpAbs
	OFpLt
	OFpLe
	OFpEq      // IEEE equality
	OFpIsNaN   //
	OFpIsInf   //
	OFpToSBV   // RTZ, to Sort.W
	OFpToUBV   // RTZ
	OFpFromSBV // RNE, Args[0] BV
	OFpFromUBV
	OFpFromBits // reinterpret BV64
	OFpRoundRNA // roundToIntegral RNA
	OFpRoundRTZ
	OFpFma
	OFpMulRTP
	OFpAddRTP
	OBv2Nat // BV -> Int (unsigned)  (use sparingly)
	ONat2Bv // Int -> BV
	OLinEq  // xor of LinAtoms = Val
	OConstArr // constant array, all elements Val
)

type Term struct {
	Op       Op
	Sort     Sort
	Args     []*Term
	Val      uint64   // BV const (W<=64) / Bool const (0/1) / FP const bits
	Big      *big.Int // Int const or BV const wider than 64
	Name     string
	P1       int
	P2       int
	Tab      []uint64
	id       uint64
	lin      *LinVec
	LinAtoms []Atom
	um       uint64
	umOK     bool
	ones     uint64
	onesOK   bool
	sh       uint64
}

var idCtr uint64

func mk(op Op, s Sort, args ...*Term) *Term {
	return &Term{Op: op, Sort: s, Args: args, id: atomic.AddUint64(&idCtr, 1)}
}

func (t *Term) ID() uint64 { return t.id }

var (
	True  = &Term{Op: OConst, Sort: Bool, Val: 1, id: atomic.AddUint64(&idCtr, 1)}
	False = &Term{Op: OConst, Sort: Bool, Val: 0, id: atomic.AddUint64(&idCtr, 1)}
)

func BoolC(b bool) *Term {
	if b {
		return True
	}
	return False
}

func mask(w int) uint64 {
	if w >= 64 {
		return ^uint64(0)
	}
	return (uint64(1) << uint(w)) - 1
}

func BVC(w int, v uint64) *Term {
	if w > 64 {
		b := new(big.Int).SetUint64(v)
		return BVBig(w, b)
	}
	t := mk(OConst, BV(w))
	t.Val = v & mask(w)
	return t
}

func BVBig(w int, v *big.Int) *Term {
	if w <= 64 {
		m := new(big.Int).And(v, new(big.Int).SetUint64(mask(w)))
		return BVC(w, m.Uint64())
	}
	t := mk(OConst, BV(w))
	m := new(big.Int).Lsh(big.NewInt(1), uint(w))
	m.Sub(m, big.NewInt(1))
	t.Big = new(big.Int).And(v, m)
	return t
}

func IntC(v int64) *Term {
	t := mk(OConst, Int)
	t.Big = big.NewInt(v)
	return t
}

func IntBig(v *big.Int) *Term {
	t := mk(OConst, Int)
	t.Big = new(big.Int).Set(v)
	return t
}

func FPC(bits64 uint64) *Term {
	t := mk(OConst, FP64)
	t.Val = bits64
	return t
}

func Var(name string, s Sort) *Term {
	t := mk(OVar, s)
	t.Name = name
	return t
}

func (t *Term) IsConst() bool { return t.Op == OConst }
func (t *Term) IsTrue() bool  { return t.Op == OConst && t.Sort.K == KBool && t.Val == 1 }
func (t *Term) IsFalse() bool { return t.Op == OConst && t.Sort.K == KBool && t.Val == 0 }

// ConstU returns the constant value of a BV term of width<=64.
func (t *Term) ConstU() (uint64, bool) {
	if t.Op == OConst && t.Sort.K == KBV && t.Sort.W <= 64 {
		return t.Val, true
	}
	return 0, false
}

func signExt(v uint64, w int) int64 {
	if w >= 64 {
		return int64(v)
	}
	sh := uint(64 - w)
	return int64(v<<sh) >> sh
}

// ConstS returns the constant as signed.
func (t *Term) ConstS() (int64, bool) {
	if v, ok := t.ConstU(); ok {
		return signExt(v, t.Sort.W), true
	}
	return 0, false
}

func same(a, b *Term) bool {
	if a == b {
		return true
	}
	if a.Sort.K == KFP && a.Op != OConst && b.Op != OConst {
		return structEq(a, b, 12)
	}
	if a.Op == OConst && b.Op == OConst && a.Sort == b.Sort {
		if a.Big != nil || b.Big != nil {
			return a.Big != nil && b.Big != nil && a.Big.Cmp(b.Big) == 0
		}
		return a.Val == b.Val
	}
	return false
}

func structEq(a, b *Term, depth int) bool {
	if a == b {
		return true
	}
	if depth == 0 || a.Op != b.Op || a.Sort != b.Sort || len(a.Args) != len(b.Args) {
		return false
	}
	switch a.Op {
	case OConst:
		if a.Big != nil || b.Big != nil {
			return a.Big != nil && b.Big != nil && a.Big.Cmp(b.Big) == 0
		}
		return a.Val == b.Val
	case OVar:
		return false
	case OApp:
		if a.Name != b.Name {
			return false
		}
	case OExtract:
		if a.P1 != b.P1 || a.P2 != b.P2 {
			return false
		}
	case OTable, OLinEq:
		return false
	}
	for i := range a.Args {
		if !structEq(a.Args[i], b.Args[i], depth-1) {
			return false
		}
	}
	return true
}

// StructHash is a structural hash (equal for structurally equal terms).
func StructHash(t *Term) uint64 {
	if t.sh != 0 {
		return t.sh
	}
	h := uint64(1469598103934665603)
	mix := func(x uint64) {
		h ^= x
		h *= 1099511628211
	}
	mix(uint64(t.Op) + 1)
	mix(uint64(t.Sort.K)<<8 | uint64(t.Sort.W))
	mix(t.Val)
	mix(uint64(t.P1)<<16 | uint64(t.P2))
	for i := 0; i < len(t.Name); i++ {
		mix(uint64(t.Name[i]))
	}
	if t.Big != nil {
		for _, w := range t.Big.Bits() {
			mix(uint64(w))
		}
	}
	for _, v := range t.Tab {
		mix(v)
	}
	for _, a := range t.Args {
		mix(StructHash(a))
	}
	if h == 0 {
		h = 1
	}
	if t.Op != OConst {
		t.sh = h
	}
	return h
}

// StructEq reports structural equality (bounded depth).
func StructEq(a, b *Term) bool { return structEq(a, b, 64) }

// Same reports syntactic identity (pointer or equal constants).
func Same(a, b *Term) bool { return same(a, b) }

// boolTable recognises (= Table_bv1(idx) #b1).
func boolTable(t *Term) (idx *Term, tab []uint64, ok bool) {
	if t.Op == OEq && t.Args[0].Op == OTable && t.Args[0].Sort.W == 1 && t.Args[1].Op == OConst && t.Args[1].Val == 1 {
		return t.Args[0].Args[0], t.Args[0].Tab, true
	}
	return nil, nil, false
}

func mkBoolTable(idx *Term, tab []uint64) *Term {
	all, none := true, true
	for _, v := range tab {
		if v != 0 {
			none = false
		} else {
			all = false
		}
	}
	if all {
		return True
	}
	if none {
		return False
	}
	t := mk(OTable, BV(1), idx)
	t.Tab = tab
	return mk(OEq, Bool, t, BVC(1, 1))
}

// combineTables merges boolean table predicates over the same index.
func combineTables(as []*Term, and bool) []*Term {
	n := 0
	for _, a := range as {
		if _, _, ok := boolTable(a); ok {
			n++
		}
	}
	if n < 2 {
		return as
	}
	var out []*Term
	type acc struct {
		idx *Term
		tab []uint64
	}
	var accs []*acc
	for _, a := range as {
		idx, tab, ok := boolTable(a)
		if !ok {
			out = append(out, a)
			continue
		}
		var found *acc
		for _, c := range accs {
			if c.idx == idx {
				found = c
				break
			}
		}
		if found == nil {
			accs = append(accs, &acc{idx, append([]uint64(nil), tab...)})
			continue
		}
		for i := range found.tab {
			if and {
				found.tab[i] &= tab[i]
			} else {
				found.tab[i] |= tab[i]
			}
		}
	}
	for _, c := range accs {
		out = append(out, mkBoolTable(c.idx, c.tab))
	}
	return out
}

func Not(a *Term) *Term {
	if a.IsTrue() {
		return False
	}
	if a.IsFalse() {
		return True
	}
	if a.Op == ONot {
		return a.Args[0]
	}
	if idx, tab, ok := boolTable(a); ok {
		nt := make([]uint64, len(tab))
		for i, v := range tab {
			nt[i] = v ^ 1
		}
		return mkBoolTable(idx, nt)
	}
	return mk(ONot, Bool, a)
}

func And(as ...*Term) *Term {
	var out []*Term
	for i := 0; i < len(as); i++ {
		if as[i].Op == OAnd {
			flat := append([]*Term{}, as[:i]...)
			flat = append(flat, as[i].Args...)
			flat = append(flat, as[i+1:]...)
			as = flat
			i--
		}
	}
	for _, a := range as {
		if a.IsFalse() {
			return False
		}
		if a.IsTrue() {
			continue
		}
		dup := false
		for _, o := range out {
			if o == a {
				dup = true
				break
			}
		}
		if !dup {
			out = append(out, a)
		}
	}
	if len(out) > 1 {
		out = combineTables(out, true)
		for _, o := range out {
			if o.IsFalse() {
				return False
			}
		}
		if len(out) > 1 {
			var o2 []*Term
			for _, o := range out {
				if !o.IsTrue() {
					o2 = append(o2, o)
				}
			}
			out = o2
		}
	}
	switch len(out) {
	case 0:
		return True
	case 1:
		return out[0]
	}
	return mk(OAnd, Bool, out...)
}

func Or(as ...*Term) *Term {
	var out []*Term
	for i := 0; i < len(as); i++ {
		if as[i].Op == OOr {
			flat := append([]*Term{}, as[:i]...)
			flat = append(flat, as[i].Args...)
			flat = append(flat, as[i+1:]...)
			as = flat
			i--
		}
	}
	for _, a := range as {
		if a.IsTrue() {
			return True
		}
		if a.IsFalse() {
			continue
		}
		dup := false
		for _, o := range out {
			if o == a {
				dup = true
				break
			}
		}
		if !dup {
			out = append(out, a)
		}
	}
	if len(out) > 1 {
		out = combineTables(out, false)
		for _, o := range out {
			if o.IsTrue() {
				return True
			}
		}
		if len(out) > 1 {
			var o2 []*Term
			for _, o := range out {
				if !o.IsFalse() {
					o2 = append(o2, o)
				}
			}
			out = o2
		}
	}
	switch len(out) {
	case 0:
		return False
	case 1:
		return out[0]
	}
	return mk(OOr, Bool, out...)
}

func Implies(a, b *Term) *Term { return Or(Not(a), b) }

func XorB(a, b *Term) *Term {
	if a.IsConst() && b.IsConst() {
		return BoolC(a.Val != b.Val)
	}
	if a.IsFalse() {
		return b
	}
	if b.IsFalse() {
		return a
	}
	if a.IsTrue() {
		return Not(b)
	}
	if b.IsTrue() {
		return Not(a)
	}
	return mk(OXorB, Bool, a, b)
}

func Ite(c, a, b *Term) *Term {
	if c.IsTrue() {
		return a
	}
	if c.IsFalse() {
		return b
	}
	if same(a, b) {
		return a
	}
	if a.Sort != b.Sort {
		panic(fmt.Sprintf("ite sort mismatch %v %v", a.Sort, b.Sort))
	}
	if idx, ctab, ok := boolTable(c); ok && a.Sort.K == KBV && a.Sort.W <= 64 {
		// ite over tables with the same index is a table
		at, aok := tabOver(a, idx, len(ctab))
		bt, bok := tabOver(b, idx, len(ctab))
		if aok && bok {
			nt := make([]uint64, len(ctab))
			for i := range nt {
				if ctab[i] != 0 {
					nt[i] = at[i]
				} else {
					nt[i] = bt[i]
				}
			}
			return tableRaw(nt, a.Sort.W, idx)
		}
	}
	if a.Sort.K == KBool {
		if a.IsTrue() && b.IsFalse() {
			return c
		}
		if a.IsFalse() && b.IsTrue() {
			return Not(c)
		}
		if a.IsTrue() {
			return Or(c, b)
		}
		if a.IsFalse() {
			return And(Not(c), b)
		}
		if b.IsTrue() {
			return Or(Not(c), a)
		}
		if b.IsFalse() {
			return And(c, a)
		}
	}
	return mk(OIte, a.Sort, c, a, b)
}

func Eq(a, b *Term) *Term {
	if a.Sort != b.Sort {
		panic(fmt.Sprintf("eq sort mismatch %v %v", a.Sort, b.Sort))
	}
	if same(a, b) {
		if a.Sort.K == KFP { // structural equality of FP terms: same term is equal (smt '=')
			return True
		}
		return True
	}
	if a.Op == OConst && b.Op == OConst {
		return False
	}
	if a.Sort.K == KBool {
		if a.IsConst() {
			a, b = b, a
		}
		if b.IsTrue() {
			return a
		}
		if b.IsFalse() {
			return Not(a)
		}
	}
	if a.Sort.K == KBV {
		if a.IsConst() {
			a, b = b, a
		}
		if b.IsConst() {
			if r := tableCmp(a, func(v uint64) bool { return v == b.Val }); r != nil {
				return r
			}
			// zext(x) == c
			if a.Op == OZext && b.Sort.W <= 64 {
				iw := a.Args[0].Sort.W
				if b.Val>>uint(iw) != 0 {
					return False
				}
				return Eq(a.Args[0], BVC(iw, b.Val))
			}
			// ite(c, k1, k2) == k
			if a.Op == OIte && a.Args[1].IsConst() && a.Args[2].IsConst() {
				return Ite(a.Args[0], Eq(a.Args[1], b), Eq(a.Args[2], b))
			}
		}
		if a.Op == OZext && b.Op == OZext && a.Args[0].Sort == b.Args[0].Sort {
			return Eq(a.Args[0], b.Args[0])
		}
		if a.Op == OTable && b.Op == OTable && a.Args[0] == b.Args[0] && len(a.Tab) == len(b.Tab) {
			nt := make([]uint64, len(a.Tab))
			for i := range nt {
				if a.Tab[i] == b.Tab[i] {
					nt[i] = 1
				}
			}
			return mkBoolTable(a.Args[0], nt)
		}
		if a.Op == OTable && b.Op == OTable && a.Args[0].Sort == b.Args[0].Sort && len(a.Tab) == len(b.Tab) {
			sameTab, inj := true, true
			seen := map[uint64]bool{}
			for i := range a.Tab {
				if a.Tab[i] != b.Tab[i] {
					sameTab = false
					break
				}
				if seen[a.Tab[i]] {
					inj = false
					break
				}
				seen[a.Tab[i]] = true
			}
			if sameTab && inj {
				return Eq(a.Args[0], b.Args[0])
			}
		}
		if r := linEq(a, b); r != nil {
			return r
		}
	}
	return mk(OEq, Bool, a, b)
}

// tableCmp folds a predicate over a table-lookup term with a small domain.
func tableCmp(a *Term, pred func(uint64) bool) *Term {
	if a.Op != OTable {
		return nil
	}
	idx := a.Args[0]
	n := len(a.Tab)
	all, none := true, true
	for i := 0; i < n; i++ {
		if pred(a.Tab[i]) {
			none = false
		} else {
			all = false
		}
	}
	if all {
		return True
	}
	if none {
		return False
	}
	// build boolean table as BV1 table == 1
	tab := make([]uint64, n)
	for i := 0; i < n; i++ {
		if pred(a.Tab[i]) {
			tab[i] = 1
		}
	}
	t := mk(OTable, BV(1), idx)
	t.Tab = tab
	return mk(OEq, Bool, t, BVC(1, 1))
}

// tabOver views t as a table over idx (constants, idx itself zero-extended, or a table on idx).
func tabOver(t *Term, idx *Term, n int) ([]uint64, bool) {
	if v, ok := t.ConstU(); ok {
		out := make([]uint64, n)
		for i := range out {
			out[i] = v
		}
		return out, true
	}
	if t.Op == OTable && t.Args[0] == idx && len(t.Tab) == n {
		return t.Tab, true
	}
	core := t
	for core.Op == OZext {
		core = core.Args[0]
	}
	if core == idx {
		out := make([]uint64, n)
		for i := range out {
			out[i] = uint64(i)
		}
		return out, true
	}
	return nil, false
}

// Table builds a lookup of a constant table at idx. len(tab) must be >= the
// number of values idx can take; entries beyond the table are an error by the caller.
func Table(tab []uint64, outW int, idx *Term) *Term {
	if v, ok := idx.ConstU(); ok {
		return BVC(outW, tab[v])
	}
	// strip zero extension
	for idx.Op == OZext {
		idx = idx.Args[0]
	}
	// compose with inner table
	if idx.Op == OTable {
		inner := idx
		nt := make([]uint64, len(inner.Tab))
		for i, v := range inner.Tab {
			if v >= uint64(len(tab)) {
				// out of range lookups cannot be composed
				return tableRaw(tab, outW, idx)
			}
			nt[i] = tab[v]
		}
		return Table(nt, outW, inner.Args[0])
	}
	if idx.Op == OIte && idx.Args[1].IsConst() && idx.Args[2].IsConst() {
		return Ite(idx.Args[0], Table(tab, outW, idx.Args[1]), Table(tab, outW, idx.Args[2]))
	}
	if idx.Sort.W <= 64 {
		if k := bits.Len64(Ones(idx)); k < idx.Sort.W && k > 0 {
			idx = Extract(idx, k-1, 0)
		}
	}
	return tableRaw(tab, outW, idx)
}

func tableRaw(tab []uint64, outW int, idx *Term) *Term {
	w := idx.Sort.W
	if w > 16 {
		panic("table index too wide")
	}
	n := 1 << uint(w)
	full := make([]uint64, n)
	for i := 0; i < n; i++ {
		if i < len(tab) {
			full[i] = tab[i] & mask(outW)
		}
	}
	// constant?
	allSame := true
	for i := 1; i < n; i++ {
		if full[i] != full[0] {
			allSame = false
			break
		}
	}
	if allSame {
		return BVC(outW, full[0])
	}
	// identity?
	ident := true
	for i := 0; i < n; i++ {
		if full[i] != uint64(i) {
			ident = false
			break
		}
	}
	if ident && outW >= w {
		return ZExt(idx, outW)
	}
	t := mk(OTable, BV(outW), idx)
	t.Tab = full
	return t
}

// TableDomain reports how many index values a table term ranges over and the index.
func (t *Term) TableInfo() (idx *Term, tab []uint64, ok bool) {
	if t.Op == OTable {
		return t.Args[0], t.Tab, true
	}
	return nil, nil, false
}

// mapTable pushes a unary function into a table term.
func mapTable(a *Term, outW int, f func(uint64) uint64) *Term {
	nt := make([]uint64, len(a.Tab))
	for i, v := range a.Tab {
		nt[i] = f(v) & mask(outW)
	}
	return tableRaw(nt, outW, a.Args[0])
}

func bin(op Op, a, b *Term) *Term {
	if a.Sort != b.Sort {
		panic(fmt.Sprintf("binop %d sort mismatch %v %v", op, a.Sort, b.Sort))
	}
	return mk(op, a.Sort, a, b)
}

func evalBin(op Op, w int, x, y uint64) (uint64, bool) {
	m := mask(w)
	switch op {
	case OBvAdd:
		return (x + y) & m, true
	case OBvSub:
		return (x - y) & m, true
	case OBvMul:
		return (x * y) & m, true
	case OBvAnd:
		return x & y, true
	case OBvOr:
		return x | y, true
	case OBvXor:
		return x ^ y, true
	case OBvUDiv:
		if y == 0 {
			return m, true
		}
		return x / y, true
	case OBvURem:
		if y == 0 {
			return x, true
		}
		return x % y, true
	case OBvSDiv:
		sx, sy := signExt(x, w), signExt(y, w)
		if sy == 0 {
			if sx >= 0 {
				return m, true
			}
			return 1, true
		}
		if sy == -1 {
			return uint64(-sx) & m, true
		}
		return uint64(sx/sy) & m, true
	case OBvSRem:
		sx, sy := signExt(x, w), signExt(y, w)
		if sy == 0 {
			return x, true
		}
		if sy == -1 {
			return 0, true
		}
		return uint64(sx%sy) & m, true
	case OBvShl:
		if y >= uint64(w) {
			return 0, true
		}
		return (x << y) & m, true
	case OBvLshr:
		if y >= uint64(w) {
			return 0, true
		}
		return x >> y, true
	case OBvAshr:
		sx := signExt(x, w)
		if y >= uint64(w) {
			if sx < 0 {
				return m, true
			}
			return 0, true
		}
		return uint64(sx>>y) & m, true
	}
	return 0, false
}

func BvBin(op Op, a, b *Term) *Term {
	w := a.Sort.W
	if a.Sort != b.Sort {
		panic(fmt.Sprintf("bvbin %d sort mismatch %v %v", op, a.Sort, b.Sort))
	}
	if w <= 64 {
		x, okx := a.ConstU()
		y, oky := b.ConstU()
		if okx && oky {
			if r, ok := evalBin(op, w, x, y); ok {
				return BVC(w, r)
			}
		}
		// push into tables
		if oky && a.Op == OTable {
			return mapTable(a, w, func(v uint64) uint64 { r, _ := evalBin(op, w, v, y); return r })
		}
		if okx && b.Op == OTable {
			return mapTable(b, w, func(v uint64) uint64 { r, _ := evalBin(op, w, x, v); return r })
		}
		// push into ite with constant leaves (bounded)
		if oky && a.Op == OIte && a.Args[1].IsConst() && a.Args[2].IsConst() {
			return Ite(a.Args[0], BvBin(op, a.Args[1], b), BvBin(op, a.Args[2], b))
		}
		// identities
		switch op {
		case OBvAdd, OBvOr, OBvXor:
			if okx && x == 0 {
				return b
			}
			if oky && y == 0 {
				return a
			}
			if op == OBvOr {
				if (okx && x == mask(w)) || (oky && y == mask(w)) {
					return BVC(w, mask(w))
				}
				if a == b {
					return a
				}
			}
			if op == OBvXor && a == b {
				return BVC(w, 0)
			}
			if op == OBvOr && Ones(a)&Ones(b) == 0 {
				return BvBin(OBvXor, a, b)
			}
		case OBvSub:
			if oky && y == 0 {
				return a
			}
			if a == b {
				return BVC(w, 0)
			}
		case OBvAnd:
			if (okx && x == 0) || (oky && y == 0) {
				return BVC(w, 0)
			}
			if okx && x == mask(w) {
				return b
			}
			if oky && y == mask(w) {
				return a
			}
			if a == b {
				return a
			}
			if oky && Ones(a)&y == KnownOnes(a)&y {
				return BVC(w, KnownOnes(a)&y)
			}
			if okx && Ones(b)&x == KnownOnes(b)&x {
				return BVC(w, KnownOnes(b)&x)
			}
			// zext(x) & c where c covers x's width
			if oky && a.Op == OZext {
				iw := a.Args[0].Sort.W
				if y&mask(iw) == mask(iw) {
					return a
				}
				if y>>uint(iw) == 0 || true {
					// and with inner
					return ZExt(BvBin(OBvAnd, a.Args[0], BVC(iw, y&mask(iw))), w)
				}
			}
			// (x & c1) & c2
			if oky && a.Op == OBvAnd {
				if c1, ok := a.Args[1].ConstU(); ok {
					return BvBin(OBvAnd, a.Args[0], BVC(w, c1&y))
				}
			}
			// x & lowmask  -> zext(extract)
			if oky && y != 0 && y&(y+1) == 0 && y != mask(w) {
				k := bits.Len64(y)
				return ZExt(Extract(a, k-1, 0), w)
			}
		case OBvMul:
			if (okx && x == 0) || (oky && y == 0) {
				return BVC(w, 0)
			}
			if okx && x == 1 {
				return b
			}
			if oky && y == 1 {
				return a
			}
		case OBvShl, OBvLshr, OBvAshr:
			if oky && y == 0 {
				return a
			}
			if okx && x == 0 {
				return a
			}
			if oky && y >= uint64(w) && op != OBvAshr {
				return BVC(w, 0)
			}
			if oky && op == OBvAshr && UMax(a) <= mask(w)>>1 {
				return BvBin(OBvLshr, a, b)
			}
			if oky && op == OBvLshr {
				// lshr(x, k) = zext(extract(x, w-1, k))
				return ZExt(Extract(a, w-1, int(y)), w)
			}
			if oky && op == OBvShl {
				// shl(x,k) = concat(extract(x, w-1-k, 0), 0_k)
				return Concat(Extract(a, w-1-int(y), 0), BVC(int(y), 0))
			}
		case OBvUDiv:
			if oky && y == 1 {
				return a
			}
		case OBvURem:
			if oky && y == 1 {
				return BVC(w, 0)
			}
		}
	}
	return bin(op, a, b)
}

func BvNeg(a *Term) *Term {
	if v, ok := a.ConstU(); ok {
		return BVC(a.Sort.W, -v)
	}
	return mk(OBvNeg, a.Sort, a)
}

func BvNot(a *Term) *Term {
	if v, ok := a.ConstU(); ok {
		return BVC(a.Sort.W, ^v)
	}
	if a.Op == OBvNot {
		return a.Args[0]
	}
	return mk(OBvNot, a.Sort, a)
}

func cmpEval(op Op, w int, x, y uint64) bool {
	switch op {
	case OBvUlt:
		return x < y
	case OBvUle:
		return x <= y
	case OBvSlt:
		return signExt(x, w) < signExt(y, w)
	case OBvSle:
		return signExt(x, w) <= signExt(y, w)
	}
	panic("cmp")
}

// Ones returns a mask of the bits of a BV term (width <= 64) that may be 1.
func Ones(t *Term) uint64 {
	w := t.Sort.W
	if w > 64 {
		return ^uint64(0)
	}
	if t.Op == OConst {
		return t.Val
	}
	if t.onesOK {
		return t.ones
	}
	v := onesOf(t) & mask(w)
	t.ones, t.onesOK = v, true
	return v
}

func onesOf(t *Term) uint64 {
	w := t.Sort.W
	switch t.Op {
	case OZext:
		return Ones(t.Args[0])
	case OConcat:
		lw := t.Args[1].Sort.W
		return Ones(t.Args[0])<<uint(lw) | Ones(t.Args[1])
	case OExtract:
		if t.Args[0].Sort.W <= 64 {
			return Ones(t.Args[0]) >> uint(t.P2)
		}
	case OBvAnd:
		return Ones(t.Args[0]) & Ones(t.Args[1])
	case OBvOr, OBvXor:
		return Ones(t.Args[0]) | Ones(t.Args[1])
	case OIte:
		return Ones(t.Args[1]) | Ones(t.Args[2])
	case OTable:
		var m uint64
		for _, v := range t.Tab {
			m |= v
		}
		return m
	case OBvLshr:
		if c, ok := t.Args[1].ConstU(); ok && c < 64 {
			return Ones(t.Args[0]) >> c
		}
	case OBvURem:
		if c, ok := t.Args[1].ConstU(); ok && c > 0 {
			return mask(bits.Len64(c - 1))
		}
	}
	return mask(w)
}

// KnownOnes returns a mask of bits that are certainly 1 (width <= 64).
func KnownOnes(t *Term) uint64 { return knownOnes(t, 24) }

func knownOnes(t *Term, depth int) uint64 {
	if t.Sort.W > 64 {
		return 0
	}
	if t.Op == OConst {
		return t.Val
	}
	if depth == 0 {
		return 0
	}
	switch t.Op {
	case OZext:
		return knownOnes(t.Args[0], depth-1)
	case OConcat:
		return knownOnes(t.Args[0], depth-1)<<uint(t.Args[1].Sort.W) | knownOnes(t.Args[1], depth-1)
	case OExtract:
		if t.Args[0].Sort.W <= 64 {
			return (knownOnes(t.Args[0], depth-1) >> uint(t.P2)) & mask(t.Sort.W)
		}
	case OBvOr:
		return knownOnes(t.Args[0], depth-1) | knownOnes(t.Args[1], depth-1)
	case OBvAnd:
		return knownOnes(t.Args[0], depth-1) & knownOnes(t.Args[1], depth-1)
	case OBvXor:
		if Ones(t.Args[0])&Ones(t.Args[1]) == 0 {
			return knownOnes(t.Args[0], depth-1) | knownOnes(t.Args[1], depth-1)
		}
	case OIte:
		return knownOnes(t.Args[1], depth-1) & knownOnes(t.Args[2], depth-1)
	}
	return 0
}

// UMax returns a cheap upper bound on the unsigned value of a BV term (<=64 bits).
func UMax(t *Term) uint64 {
	if t.Op == OConst {
		if t.Sort.W > 64 {
			return ^uint64(0)
		}
		return t.Val
	}
	if t.umOK {
		return t.um
	}
	v := umax(t)
	if t.Sort.W <= 64 {
		if o := Ones(t); o < v {
			v = o
		}
	}
	t.um, t.umOK = v, true
	return v
}

func umax(t *Term) uint64 {
	w := t.Sort.W
	if w > 64 {
		return ^uint64(0)
	}
	switch t.Op {
	case OConst:
		return t.Val
	case OZext:
		return UMax(t.Args[0])
	case OTable:
		var m uint64
		for _, v := range t.Tab {
			if v > m {
				m = v
			}
		}
		return m
	case OIte:
		a, b := UMax(t.Args[1]), UMax(t.Args[2])
		if a > b {
			return a
		}
		return b
	case OBvAnd:
		a, b := UMax(t.Args[0]), UMax(t.Args[1])
		if a < b {
			return a
		}
		return b
	case OBvOr, OBvXor:
		a, b := UMax(t.Args[0]), UMax(t.Args[1])
		if a < b {
			a = b
		}
		if a == 0 {
			return 0
		}
		k := bits.Len64(a)
		return mask(k) & mask(w)
	case OBvURem:
		if c, ok := t.Args[1].ConstU(); ok && c > 0 {
			a := UMax(t.Args[0])
			if a < c-1 {
				return a
			}
			return c - 1
		}
	case OBvUDiv:
		if c, ok := t.Args[1].ConstU(); ok && c > 0 {
			return UMax(t.Args[0]) / c
		}
	case OBvLshr:
		if c, ok := t.Args[1].ConstU(); ok && c < 64 {
			return UMax(t.Args[0]) >> c
		}
		return UMax(t.Args[0])
	case OConcat:
		hi := UMax(t.Args[0])
		lw := t.Args[1].Sort.W
		lo := UMax(t.Args[1])
		if lw < 64 && hi <= mask(64-lw) {
			return hi<<uint(lw) | lo | 0
		}
	case OBvAdd:
		a, b := UMax(t.Args[0]), UMax(t.Args[1])
		s := a + b
		if s >= a && s <= mask(w) {
			return s
		}
	case OBvMul:
		a, b := UMax(t.Args[0]), UMax(t.Args[1])
		hi, lo := bits.Mul64(a, b)
		if hi == 0 && lo <= mask(w) {
			return lo
		}
	case OExtract:
		if t.P2 == 0 {
			a := UMax(t.Args[0])
			if a <= mask(w) {
				return a
			}
		}
	}
	return mask(w)
}

func BvCmp(op Op, a, b *Term) *Term {
	if a.Sort != b.Sort {
		panic(fmt.Sprintf("bvcmp sort mismatch %v %v", a.Sort, b.Sort))
	}
	w := a.Sort.W
	if w <= 64 {
		x, okx := a.ConstU()
		y, oky := b.ConstU()
		if okx && oky {
			return BoolC(cmpEval(op, w, x, y))
		}
		if oky {
			if r := tableCmp(a, func(v uint64) bool { return cmpEval(op, w, v, y) }); r != nil {
				return r
			}
		}
		if okx {
			if r := tableCmp(b, func(v uint64) bool { return cmpEval(op, w, x, v) }); r != nil {
				return r
			}
		}
		if a == b {
			return BoolC(op == OBvUle || op == OBvSle)
		}
		if op == OBvUlt && okx && x == 0 {
			return Not(Eq(b, BVC(w, 0)))
		}
		if op == OBvUle && oky && y == 0 {
			return Eq(a, BVC(w, 0))
		}
		if op == OBvUlt && oky && y == 1 {
			return Eq(a, BVC(w, 0))
		}
		if op == OBvUle && okx && x == 1 {
			return Not(Eq(b, BVC(w, 0)))
		}
		// range-based folding for unsigned comparisons
		if op == OBvUlt || op == OBvUle {
			if oky {
				am := UMax(a)
				if op == OBvUlt && am < y {
					return True
				}
				if op == OBvUle && am <= y {
					return True
				}
				if op == OBvUlt && y == 0 {
					return False
				}
			}
			if okx {
				bm := UMax(b)
				if op == OBvUlt && x >= bm {
					return False
				}
				if op == OBvUle && x > bm {
					return False
				}
				if op == OBvUle && x == 0 {
					return True
				}
			}
		}
		// signed compare where both sides are provably non-negative -> unsigned
		if op == OBvSlt || op == OBvSle {
			half := mask(w) >> 1
			if UMax(a) <= half && UMax(b) <= half {
				if op == OBvSlt {
					return BvCmp(OBvUlt, a, b)
				}
				return BvCmp(OBvUle, a, b)
			}
		}
		// zext both sides
		if a.Op == OZext && b.Op == OZext && a.Args[0].Sort == b.Args[0].Sort && (op == OBvUlt || op == OBvUle) {
			return BvCmp(op, a.Args[0], b.Args[0])
		}
		if a.Op == OZext && oky && (op == OBvUlt || op == OBvUle) {
			iw := a.Args[0].Sort.W
			if y <= mask(iw) {
				return BvCmp(op, a.Args[0], BVC(iw, y))
			}
			return True
		}
	}
	return mk(op, Bool, a, b)
}

func Extract(a *Term, hi, lo int) *Term {
	w := hi - lo + 1
	if w <= 0 {
		panic("extract width")
	}
	if lo == 0 && hi == a.Sort.W-1 {
		return a
	}
	if a.Op == OConst {
		if a.Big != nil {
			v := new(big.Int).Rsh(a.Big, uint(lo))
			return BVBig(w, v)
		}
		return BVC(w, a.Val>>uint(lo))
	}
	if a.Op == OTable && w <= 64 {
		return mapTable(a, w, func(v uint64) uint64 { return v >> uint(lo) })
	}
	switch a.Op {
	case OZext:
		iw := a.Args[0].Sort.W
		if lo >= iw {
			return BVC(w, 0)
		}
		if hi < iw {
			return Extract(a.Args[0], hi, lo)
		}
		return ZExt(Extract(a.Args[0], iw-1, lo), w)
	case OExtract:
		return Extract(a.Args[0], a.P2+hi, a.P2+lo)
	case OConcat:
		lw := a.Args[1].Sort.W
		if hi < lw {
			return Extract(a.Args[1], hi, lo)
		}
		if lo >= lw {
			return Extract(a.Args[0], hi-lw, lo-lw)
		}
		return Concat(Extract(a.Args[0], hi-lw, 0), Extract(a.Args[1], lw-1, lo))
	case OIte:
		if a.Args[1].IsConst() && a.Args[2].IsConst() {
			return Ite(a.Args[0], Extract(a.Args[1], hi, lo), Extract(a.Args[2], hi, lo))
		}
	case OBvXor, OBvOr:
		if a.Sort.W <= 64 {
			rng := (mask(hi+1) >> uint(lo)) << uint(lo)
			if Ones(a.Args[1])&rng == 0 {
				return Extract(a.Args[0], hi, lo)
			}
			if Ones(a.Args[0])&rng == 0 {
				return Extract(a.Args[1], hi, lo)
			}
		}
	}
	t := mk(OExtract, BV(w), a)
	t.P1, t.P2 = hi, lo
	return t
}

func Concat(a, b *Term) *Term {
	w := a.Sort.W + b.Sort.W
	if a.Op == OConst && b.Op == OConst {
		if w <= 64 {
			return BVC(w, a.Val<<uint(b.Sort.W)|b.Val)
		}
		av, bv := a.Big, b.Big
		if av == nil {
			av = new(big.Int).SetUint64(a.Val)
		}
		if bv == nil {
			bv = new(big.Int).SetUint64(b.Val)
		}
		v := new(big.Int).Lsh(av, uint(b.Sort.W))
		v.Or(v, bv)
		return BVBig(w, v)
	}
	if v, ok := a.ConstU(); ok && v == 0 {
		return ZExt(b, w)
	}
	// adjacent extracts of the same term
	if a.Op == OExtract && b.Op == OExtract && a.Args[0] == b.Args[0] && a.P2 == b.P1+1 {
		return Extract(a.Args[0], a.P1, b.P2)
	}
	return mk(OConcat, BV(w), a, b)
}

func ZExt(a *Term, w int) *Term {
	if a.Sort.W == w {
		return a
	}
	if a.Sort.W > w {
		panic("zext narrowing")
	}
	if a.Op == OConst {
		if a.Big != nil {
			return BVBig(w, a.Big)
		}
		return BVC(w, a.Val)
	}
	if a.Op == OZext {
		return ZExt(a.Args[0], w)
	}
	if a.Op == OTable && w <= 64 {
		return mapTable(a, w, func(v uint64) uint64 { return v })
	}
	if a.Op == OIte && a.Args[1].IsConst() && a.Args[2].IsConst() {
		return Ite(a.Args[0], ZExt(a.Args[1], w), ZExt(a.Args[2], w))
	}
	t := mk(OZext, BV(w), a)
	return t
}

func SExt(a *Term, w int) *Term {
	if a.Sort.W == w {
		return a
	}
	if a.Sort.W > w {
		panic("sext narrowing")
	}
	if v, ok := a.ConstU(); ok && w <= 64 {
		return BVC(w, uint64(signExt(v, a.Sort.W)))
	}
	if a.Op == OTable && w <= 64 {
		iw := a.Sort.W
		return mapTable(a, w, func(v uint64) uint64 { return uint64(signExt(v, iw)) })
	}
	if UMax(a) <= mask(a.Sort.W)>>1 {
		return ZExt(a, w)
	}
	if a.Op == OIte && a.Args[1].IsConst() && a.Args[2].IsConst() {
		return Ite(a.Args[0], SExt(a.Args[1], w), SExt(a.Args[2], w))
	}
	return mk(OSext, BV(w), a)
}

func App(name string, s Sort, args ...*Term) *Term {
	t := mk(OApp, s, args...)
	t.Name = name
	return t
}

// Integer terms -------------------------------------------------------------

func IntBin(op Op, a, b *Term) *Term {
	if a.Sort.K != KInt || b.Sort.K != KInt {
		panic("intbin on non-int")
	}
	if a.Op == OConst && b.Op == OConst {
		r := new(big.Int)
		switch op {
		case OIntAdd:
			return IntBig(r.Add(a.Big, b.Big))
		case OIntSub:
			return IntBig(r.Sub(a.Big, b.Big))
		case OIntMul:
			return IntBig(r.Mul(a.Big, b.Big))
		case OIntDiv:
			if b.Big.Sign() != 0 {
				return IntBig(r.Div(a.Big, b.Big)) // Euclidean, matches SMT-LIB
			}
		case OIntMod:
			if b.Big.Sign() != 0 {
				return IntBig(r.Mod(a.Big, b.Big))
			}
		}
	}
	switch op {
	case OIntAdd:
		if a.Op == OConst && a.Big.Sign() == 0 {
			return b
		}
		if b.Op == OConst && b.Big.Sign() == 0 {
			return a
		}
	case OIntSub:
		if b.Op == OConst && b.Big.Sign() == 0 {
			return a
		}
	case OIntMul:
		if a.Op == OConst && a.Big.Sign() == 0 || b.Op == OConst && b.Big.Sign() == 0 {
			return IntC(0)
		}
		if a.Op == OConst && a.Big.Cmp(big.NewInt(1)) == 0 {
			return b
		}
		if b.Op == OConst && b.Big.Cmp(big.NewInt(1)) == 0 {
			return a
		}
	}
	return mk(op, Int, a, b)
}

func IntCmp(op Op, a, b *Term) *Term {
	if a.Op == OConst && b.Op == OConst {
		c := a.Big.Cmp(b.Big)
		if op == OIntLe {
			return BoolC(c <= 0)
		}
		return BoolC(c < 0)
	}
	return mk(op, Bool, a, b)
}

func Select(arr, idx *Term) *Term {
	// read-over-write with syntactically equal / distinct constant indices
	for arr.Op == OStore {
		if same(arr.Args[1], idx) {
			return arr.Args[2]
		}
		if arr.Args[1].IsConst() && idx.IsConst() {
			arr = arr.Args[0]
			continue
		}
		break
	}
	if arr.Op == OConstArr {
		return BVC(8, arr.Val)
	}
	return mk(OSelect, BV(8), arr, idx)
}

func ConstArr(v uint64) *Term {
	t := mk(OConstArr, Arr32)
	t.Val = v & 0xff
	return t
}

func Store(arr, idx, v *Term) *Term {
	return mk(OStore, Arr32, arr, idx, v)
}

// FP ------------------------------------------------------------------------

func Fp(op Op, s Sort, args ...*Term) *Term { return mk(op, s, args...) }
