package main

import (
	"flag"
	"fmt"
	"os"
	"path/filepath"
	"sort"
	"strconv"
	"strings"
	"time"

	"verif/engine/sym"
)

var repoDir = "/repo"
var verifDir = "/verif"

// pkgDirs maps harness directory names to (repo sub-directory, package name, import path).
type pkgInfo struct{ dir, name, path string }

var pkgTable = map[string]pkgInfo{
	"root":        {".", "bchutil", "github.com/gcash/bchutil"},
	"base58":      {"base58", "base58", "github.com/gcash/bchutil/base58"},
	"bech32":      {"bech32", "bech32", "github.com/gcash/bchutil/bech32"},
	"bloom":       {"bloom", "bloom", "github.com/gcash/bchutil/bloom"},
	"coinset":     {"coinset", "coinset", "github.com/gcash/bchutil/coinset"},
	"gcs":         {"gcs", "gcs", "github.com/gcash/bchutil/gcs"},
	"builder":     {"gcs/builder", "builder", "github.com/gcash/bchutil/gcs/builder"},
	"hdkeychain":  {"hdkeychain", "hdkeychain", "github.com/gcash/bchutil/hdkeychain"},
	"jsonpb":      {"jsonpb", "jsonpb", "github.com/gcash/bchutil/jsonpb"},
	"merkleblock": {"merkleblock", "merkleblock", "github.com/gcash/bchutil/merkleblock"},
	"txsort":      {"txsort", "txsort", "github.com/gcash/bchutil/txsort"},
}

var defaultInit = []string{
	"errors", "io", "encoding/hex", "encoding/binary", "sort", "strings", "bytes", "math", "math/bits", "strconv",
	"github.com/gcash/bchd/chaincfg/chainhash",
	"github.com/gcash/bchd/wire",
	"github.com/gcash/bchd/chaincfg",
	"github.com/gcash/bchutil/base58",
	"github.com/gcash/bchutil/bech32",
	"github.com/gcash/bchutil",
	"github.com/gcash/bchutil/bloom",
	"github.com/gcash/bchutil/coinset",
	"github.com/gcash/bchutil/gcs",
	"github.com/gcash/bchutil/gcs/builder",
	"github.com/gcash/bchutil/hdkeychain",
	"github.com/gcash/bchutil/merkleblock",
	"github.com/gcash/bchutil/txsort",
	"github.com/gcash/bchutil/jsonpb",
}

func loadProgram(dirs []string) (*sym.Program, error) {
	overlay := map[string][]byte{}
	var patterns []string
	for _, d := range dirs {
		pi, ok := pkgTable[d]
		if !ok {
			return nil, fmt.Errorf("unknown harness dir %s", d)
		}
		hd := filepath.Join(verifDir, "harness", d)
		ents, err := os.ReadDir(hd)
		if err != nil {
			return nil, err
		}
		for _, en := range ents {
			if en.IsDir() || !strings.HasSuffix(en.Name(), ".go") || strings.HasSuffix(en.Name(), "_native.go") {
				continue
			}
			b, err := os.ReadFile(filepath.Join(hd, en.Name()))
			if err != nil {
				return nil, err
			}
			overlay[filepath.Join(repoDir, pi.dir, "zz_verif_"+en.Name())] = b
		}
		overlay[filepath.Join(repoDir, pi.dir, "zz_verif_api.go")] = sym.APISymbolic(pi.name)
		patterns = append(patterns, "./"+pi.dir)
	}
	return sym.Load(sym.LoadOpts{RepoDir: repoDir, Patterns: patterns, Overlay: overlay, InitPkgs: defaultInit, ZeroPkgs: []string{"internal/cpu"}})
}

func main() {
	if exe, err := os.Executable(); err == nil {
		// <verif>/bin/gosmt: harnesses, evidence and known findings are read relative to the binary
		if d := filepath.Dir(exe); filepath.Base(d) == "bin" {
			if _, err := os.Stat(filepath.Join(filepath.Dir(d), "harness")); err == nil {
				verifDir = filepath.Dir(d)
			}
		}
	}
	if r := os.Getenv("GOSMT_REPO"); r != "" {
		repoDir = r // seeded-change experiments run against a scratch worktree instead of /repo
	}
	if len(os.Args) < 2 {
		fmt.Fprintln(os.Stderr, "usage: gosmt run|check|replay ...")
		os.Exit(2)
	}
	switch os.Args[1] {
	case "run":
		cmdRun(os.Args[2:])
	case "replay":
		os.Exit(cmdReplay(os.Args[2:]))
	case "check":
		os.Exit(cmdCheck(os.Args[2:]))
	default:
		fmt.Fprintln(os.Stderr, "unknown command")
		os.Exit(2)
	}
}

func cmdRun(args []string) {
	fs := flag.NewFlagSet("run", flag.ExitOnError)
	workers := fs.Int("workers", 8, "")
	lazy := fs.Bool("lazy", false, "")
	nomerge := fs.Bool("nomerge", false, "")
	backend := fs.String("backend", "z3", "")
	dbg := fs.Bool("debugpanic", false, "")
	params := fs.String("params", "", "k=v,k=v")
	relax := fs.Bool("relaxfdiv", false, "")
	ufcalls := fs.String("uf", "", "comma separated function names treated as UF")
	symmake := fs.Bool("symmake", false, "")
	ufrem := fs.Bool("ufrem", false, "")
	ufmul := fs.Bool("ufmul", false, "")
	realb58 := fs.Bool("realb58", false, "")
	stubs := fs.String("stubs", "", "fn=stub,fn=stub")
	tmo := fs.Int("timeout", 60000, "")
	fs.Parse(args)
	rest := fs.Args()
	if len(rest) >= 1 {
		if _, ok := pkgTable[rest[0]]; !ok {
			pkgTable[rest[0]] = pkgInfo{rest[0], rest[0], "github.com/gcash/bchutil/" + rest[0]}
		}
	}
	if len(rest) < 2 {
		fmt.Fprintln(os.Stderr, "usage: gosmt run [flags] <dir> <Harness>")
		os.Exit(2)
	}
	t0 := time.Now()
	prog, err := loadProgram([]string{rest[0]})
	if err != nil {
		fmt.Fprintln(os.Stderr, err)
		os.Exit(2)
	}
	fmt.Printf("loaded in %.1fs\n", time.Since(t0).Seconds())
	for _, l := range prog.InitLog {
		fmt.Println("init:", l)
	}
	cfg := sym.DefaultCfg()
	cfg.Name = rest[1]
	cfg.Pkg = pkgTable[rest[0]].path
	cfg.Workers = *workers
	cfg.Lazy = *lazy
	cfg.NoMerge = *nomerge
	cfg.Backend = *backend
	cfg.Params = map[string]int{}
	cfg.RelaxFDiv = *relax
	cfg.SymbolicMake = *symmake
	cfg.UFRem = *ufrem
	cfg.UFMul = *ufmul
	cfg.RealBase58 = *realb58
	if *stubs != "" {
		cfg.Stubs = map[string]string{}
		for _, kv := range strings.Split(*stubs, ",") {
			if i := strings.LastIndex(kv, "="); i > 0 {
				cfg.Stubs[kv[:i]] = kv[i+1:]
			}
		}
	}
	if *ufcalls != "" {
		cfg.UFCalls = map[string]bool{}
		for _, f := range strings.Split(*ufcalls, ",") {
			cfg.UFCalls[f] = true
		}
	}
	cfg.TimeoutMs = *tmo
	if *dbg {
		cfg.Params["debugpanic"] = 1
	}
	for _, kv := range strings.Split(*params, ",") {
		if i := strings.Index(kv, "="); i > 0 {
			n, _ := strconv.Atoi(kv[i+1:])
			cfg.Params[kv[:i]] = n
		}
	}
	res := sym.Explore(prog, cfg)
	printResult(res)
	if fsx := sym.ForkStats(); fsx != nil {
		type kv struct {
			k string
			v int
		}
		var l []kv
		for k, v := range fsx {
			l = append(l, kv{k, v})
		}
		sort.Slice(l, func(i, j int) bool { return l[i].v > l[j].v })
		for i, x := range l {
			if i > 25 {
				break
			}
			fmt.Printf("  forks %8d  %s\n", x.v, x.k)
		}
	}
}

func printResult(res *sym.HarnessResult) {
	fmt.Printf("harness %s: paths=%d dead=%d instrs=%d queries=%d (feas %d) solver=%.2fs wall=%.2fs\n", res.Name, res.Paths, res.DeadPaths, res.Instrs, res.Queries, res.FeasQueries, res.SolverTime.Seconds(), res.Wall.Seconds())
	fmt.Printf("  obligations: trivial=%d unsat=%d sat=%d unknown=%d bound=%d maxQueryMs=%d\n", res.NTrivial, res.NUnsat, res.NSat, res.NUnknown, res.NBound, res.MaxQueryMs)
	var keys []string
	for k := range res.Inconclusive {
		keys = append(keys, k)
	}
	sort.Strings(keys)
	for _, k := range keys {
		fmt.Printf("  INCONCLUSIVE x%d: %s\n", res.Inconclusive[k], k)
	}
	for i, o := range res.Obls {
		if i > 20 {
			fmt.Printf("  ... %d more\n", len(res.Obls)-i)
			break
		}
		fmt.Printf("  [%s] %s %s %s %v %s\n", o.Verdict, o.Kind, o.Label, o.Where, o.Model, o.Note)
	}
	var rl []string
	for l := range res.Reached {
		rl = append(rl, l)
	}
	sort.Strings(rl)
	fmt.Printf("  reached: %v\n", rl)
	for n, c := range res.Notes {
		fmt.Printf("  note x%d: %s\n", c, n)
	}
}
