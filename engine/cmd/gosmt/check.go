package main

import (
	"bufio"
	"encoding/hex"
	"encoding/json"
	"flag"
	"fmt"
	"math/big"
	"os"
	"os/exec"
	"path/filepath"
	"sort"
	"strconv"
	"strings"
	"time"

	"verif/engine/sym"
)

type HarnessSpec struct {
	Dir        string
	Name       string
	Tweak      func(cfg *sym.HarnessCfg, tier string)
	Reach      []string // labels that must be witnessed (non-vacuity)
	PanicsOnly bool     // count only panics / allocation / bound obligations (harness shared with another property)
	Tiers      string   // "" = both, "thorough" = thorough only, "quick" = quick only (superseded by a larger thorough variant)
	Variant    string
	AfterSat   string
}

type PropSpec struct {
	ID          string
	Level       string
	Harnesses   []HarnessSpec
	Assumptions []string
	Outside     []string
	Bounds      map[string]string // tier -> text
	Explanation string
	Extra       func(tier string, ev map[string]interface{}) (violations []string, notes []string)
}

type ReplayFile struct {
	Property  string            `json:"property"`
	Harness   string            `json:"harness"`
	Dir       string            `json:"dir"`
	Label     string            `json:"label"`
	Kind      string            `json:"kind"`
	Where     string            `json:"where"`
	Vars      map[string]string `json:"Vars"`
	Decisions []int             `json:"Decisions"`
	Params    map[string]int    `json:"params"`
	UF        []sym.UFRec       `json:"uf,omitempty"`
}

var commonAssumptions = []string{
	"the SSA->SMT encoder (engine/sym) and its term normaliser (engine/smt: constant folding, table composition, GF(2)-affine normal form) are correct; they are cross-checked by running each harness natively on every counterexample and by the seeded-change experiments in DESIGN.md",
	"Go semantics modelled: wrapping fixed-width integers, slices with concrete length/capacity (symbolic contents), strings as byte sequences (ASCII), maps as association lists, no goroutines",
	"std-library functions listed under 'stubs' in DESIGN.md §2.3 are replaced by engine intrinsics with the stated contracts",
	"z3 4.8.12 / cvc5 1.0.3 answers are trusted; an `(error` line or `unknown` is reported as inconclusive, never as success",
}

type knownEntry struct {
	kind, property, harness, label, text string
}

func loadKnown() []knownEntry {
	f, err := os.Open(filepath.Join(verifDir, "known_findings.txt"))
	if err != nil {
		return nil
	}
	defer f.Close()
	var out []knownEntry
	sc := bufio.NewScanner(f)
	for sc.Scan() {
		line := strings.TrimSpace(sc.Text())
		if line == "" || strings.HasPrefix(line, "#") {
			continue
		}
		var k knownEntry
		switch {
		case strings.HasPrefix(line, "known:"):
			k.kind = "known"
			line = strings.TrimSpace(line[6:])
		case strings.HasPrefix(line, "fixed:"):
			k.kind = "fixed"
			line = strings.TrimSpace(line[6:])
		default:
			continue
		}
		fields := strings.Fields(line)
		rest := []string{}
		for _, fl := range fields {
			switch {
			case strings.HasPrefix(fl, "property="):
				k.property = fl[9:]
			case strings.HasPrefix(fl, "harness="):
				k.harness = fl[8:]
			case strings.HasPrefix(fl, "label="):
				k.label = fl[6:]
			default:
				rest = append(rest, fl)
			}
		}
		k.text = strings.Join(rest, " ")
		out = append(out, k)
	}
	return out
}

func sanitize(s string) string {
	var b strings.Builder
	for _, r := range s {
		if r >= 'a' && r <= 'z' || r >= 'A' && r <= 'Z' || r >= '0' && r <= '9' || r == '-' || r == '_' {
			b.WriteRune(r)
		} else {
			b.WriteByte('_')
		}
	}
	r := b.String()
	if len(r) > 60 {
		r = r[:60]
	}
	return r
}

// nativeReplay runs the harness natively with the model and reports which labels failed.
func nativeReplay(rf *ReplayFile, modelPath string) (failed []string, panicked string, out string, err error) {
	pi := pkgTable[rf.Dir]
	tmp, err := os.MkdirTemp("", "gosmt-replay-")
	if err != nil {
		return nil, "", "", err
	}
	defer os.RemoveAll(tmp)
	replace := map[string]string{}
	hd := filepath.Join(verifDir, "harness", rf.Dir)
	ents, _ := os.ReadDir(hd)
	for _, en := range ents {
		if en.IsDir() || !strings.HasSuffix(en.Name(), ".go") || strings.HasSuffix(en.Name(), "_sym.go") {
			continue
		}
		replace[filepath.Join(repoDir, pi.dir, "zz_verif_"+en.Name())] = filepath.Join(hd, en.Name())
	}
	nat := filepath.Join(tmp, "native.go")
	os.WriteFile(nat, sym.APINative(pi.name), 0o644)
	replace[filepath.Join(repoDir, pi.dir, "zz_verif_native.go")] = nat
	test := fmt.Sprintf(`package %s

import (
	"fmt"
	"os"
	"runtime"
	"testing"
)

func TestZZReplay(t *testing.T) {
	vLoadModel(os.Getenv("VERIF_REPLAY_MODEL"))
	var zzM0, zzM1 runtime.MemStats
	runtime.ReadMemStats(&zzM0)
	defer func() {
		runtime.ReadMemStats(&zzM1)
		fmt.Printf("REPLAY-ALLOC %%d\n", zzM1.TotalAlloc-zzM0.TotalAlloc)
	}()
	func() {
		defer func() {
			if r := recover(); r != nil {
				if _, ok := r.(vAssumeFailed); ok {
					fmt.Println("REPLAY-ASSUME-FAILED")
					return
				}
				fmt.Printf("REPLAY-PANIC %%v\n", r)
			}
		}()
		%s()
	}()
	for _, f := range vFailed {
		fmt.Printf("REPLAY-FAILED %%s\n", f)
	}
	fmt.Println("REPLAY-DONE")
}
`, pi.name, rf.Harness)
	tf := filepath.Join(tmp, "replay_test.go")
	os.WriteFile(tf, []byte(test), 0o644)
	replace[filepath.Join(repoDir, pi.dir, "zz_verif_replay_test.go")] = tf
	if err := ufOverlay(rf, tmp, replace); err != nil {
		return nil, "", "", err
	}
	ovb, _ := json.Marshal(map[string]interface{}{"Replace": replace})
	ovf := filepath.Join(tmp, "overlay.json")
	os.WriteFile(ovf, ovb, 0o644)
	goArgs := []string{"300", "go", "test", "-v", "-vet=off", "-count=1", "-run", "^TestZZReplay$", "-overlay", ovf}
	if strings.HasPrefix(rf.Label, "lock:") {
		goArgs = append(goArgs, "-race")
	}
	goArgs = append(goArgs, "./"+pi.dir)
	cmd := exec.Command("timeout", goArgs...)
	cmd.Dir = repoDir
	cmd.Env = append(os.Environ(), "GOFLAGS=-mod=mod", "GOPROXY=off", "GOSUMDB=off", "GOTOOLCHAIN=local", "VERIF_REPLAY_MODEL="+modelPath)
	ob, _ := cmd.CombinedOutput()
	out = string(ob)
	if strings.HasPrefix(rf.Label, "lock:") && strings.Contains(out, "DATA RACE") {
		return []string{rf.Label}, "", out, nil
	}
	if !strings.Contains(out, "REPLAY-DONE") && !strings.Contains(out, "REPLAY-PANIC") {
		return nil, "", out, fmt.Errorf("replay did not run to completion")
	}
	for _, l := range strings.Split(out, "\n") {
		if strings.HasPrefix(l, "REPLAY-FAILED ") {
			failed = append(failed, strings.TrimPrefix(l, "REPLAY-FAILED "))
		}
		if strings.HasPrefix(l, "REPLAY-PANIC ") {
			panicked = strings.TrimPrefix(l, "REPLAY-PANIC ")
		}
		if strings.HasPrefix(l, "REPLAY-ALLOC ") {
			failed = append(failed, "alloc-bytes:"+strings.TrimPrefix(l, "REPLAY-ALLOC "))
		}
	}
	return failed, panicked, out, nil
}

func replayMatches(rf *ReplayFile, failed []string, panicked string) bool {
	if strings.HasPrefix(rf.Label, "alloc:") {
		for _, f := range failed {
			if strings.HasPrefix(f, "alloc-bytes:") {
				n, _ := strconv.ParseInt(strings.TrimPrefix(f, "alloc-bytes:"), 10, 64)
				return n > 1<<20 // harness inputs are a few bytes: more than 1 MiB is not proportional
			}
		}
		return false
	}
	if rf.Kind == "panic" {
		if panicked != "" {
			return true
		}
		for _, f := range failed {
			if strings.HasPrefix(f, "note:panic:") {
				return true
			}
		}
		return false
	}
	for _, f := range failed {
		if f == rf.Label {
			return true
		}
	}
	return false
}

func cmdReplay(args []string) int {
	if len(args) < 1 {
		fmt.Fprintln(os.Stderr, "usage: gosmt replay <file>")
		return 2
	}
	b, err := os.ReadFile(args[0])
	if err != nil {
		fmt.Fprintln(os.Stderr, err)
		return 2
	}
	var rf ReplayFile
	if err := json.Unmarshal(b, &rf); err != nil {
		fmt.Fprintln(os.Stderr, err)
		return 2
	}
	abs, _ := filepath.Abs(args[0])
	failed, panicked, out, err := nativeReplay(&rf, abs)
	if err != nil {
		fmt.Println(out)
		fmt.Fprintln(os.Stderr, err)
		return 2
	}
	if os.Getenv("GOSMT_REPLAY_VERBOSE") != "" {
		fmt.Println(out)
	}
	fmt.Printf("replay of %s %s label=%s: failed=%v panic=%q\n", rf.Property, rf.Harness, rf.Label, failed, panicked)
	if replayMatches(&rf, failed, panicked) {
		fmt.Printf("REPRODUCED property=%s\n", rf.Property)
		return 1
	}
	fmt.Println("not reproduced")
	return 0
}

func cmdCheck(args []string) int {
	fs := flag.NewFlagSet("check", flag.ExitOnError)
	tier := fs.String("tier", "", "quick|thorough")
	workers := fs.Int("workers", 16, "")
	only := fs.String("only", "", "run only this harness")
	if len(args) < 1 {
		fmt.Fprintln(os.Stderr, "usage: gosmt check <ID> [--tier quick|thorough]")
		return 2
	}
	id := args[0]
	fs.Parse(args[1:])
	if *tier == "" {
		*tier = os.Getenv("VERIF_TIER")
	}
	if *tier != "thorough" {
		*tier = "quick"
	}
	seed, _ := strconv.Atoi(os.Getenv("VERIF_SEED"))
	spec, ok := props[id]
	if !ok {
		fmt.Fprintf(os.Stderr, "unknown property %s\n", id)
		return 2
	}
	t0 := time.Now()
	dirSet := map[string]bool{}
	var dirs []string
	for _, h := range spec.Harnesses {
		if !dirSet[h.Dir] {
			dirSet[h.Dir] = true
			dirs = append(dirs, h.Dir)
		}
	}
	prog, err := loadProgram(dirs)
	if err != nil {
		fmt.Fprintln(os.Stderr, "load failed:", err)
		return 2
	}
	loadS := time.Since(t0).Seconds()
	known := loadKnown()
	replayDir := filepath.Join(verifDir, "replays", id)
	if d := os.Getenv("GOSMT_REPLAYS"); d != "" {
		replayDir = filepath.Join(d, id)
	}
	os.RemoveAll(replayDir)

	var results []*sym.HarnessResult
	satSeen := map[string]int{}
	violations := 0
	var vioLines, knownLines, incon []string
	replays := 0
	reproduced := 0
	spurious := 0
	vacuous := false
	funcs := map[string]bool{}
	ufs := map[string]bool{}
	var samples []interface{}
	tot := struct {
		paths, instrs, trivial, unsat, sat, unknown, bound, queries int
		solver                                                      float64
		maxq                                                        int64
	}{}
	for _, hs := range spec.Harnesses {
		if (hs.Tiers == "thorough" && *tier != "thorough") || (hs.Tiers == "quick" && *tier != "quick") {
			continue
		}
		if *only != "" && hs.Name != *only {
			continue
		}
		if hs.AfterSat != "" && satSeen[hs.AfterSat] == 0 {
			continue
		}
		cfg := sym.DefaultCfg()
		cfg.Name = hs.Name
		cfg.Pkg = pkgTable[hs.Dir].path
		cfg.Workers = *workers
		cfg.Params = map[string]int{}
		cfg.TimeBudgetS = 900
		if *tier == "thorough" {
			cfg.TimeoutMs = 600000
			cfg.Params["thorough"] = 1
			cfg.TimeBudgetS = 5400
		}
		if b, err := strconv.Atoi(os.Getenv("GOSMT_BUDGET_S")); err == nil && b > 0 {
			cfg.TimeBudgetS = b // per-harness wall-clock budget override (exhaustion is reported as a reduced bound)
		}
		if hs.Tweak != nil {
			hs.Tweak(cfg, *tier)
		}
		res := sym.Explore(prog, cfg)
		if hs.Variant != "" {
			res.Name = hs.Name + "[" + hs.Variant + "]"
		}
		results = append(results, res)
		satSeen[res.Name] += res.NSat
		fmt.Printf("harness %-28s paths=%d instrs=%d trivial=%d unsat=%d sat=%d unknown=%d bound=%d queries=%d solver=%.1fs wall=%.1fs\n",
			res.Name, res.Paths, res.Instrs, res.NTrivial, res.NUnsat, res.NSat, res.NUnknown, res.NBound, res.Queries, res.SolverTime.Seconds(), res.Wall.Seconds())
		tot.paths += res.Paths
		tot.instrs += res.Instrs
		tot.trivial += res.NTrivial
		tot.unsat += res.NUnsat
		tot.sat += res.NSat
		tot.unknown += res.NUnknown
		tot.bound += res.NBound
		tot.queries += res.Queries
		tot.solver += res.SolverTime.Seconds()
		if res.MaxQueryMs > tot.maxq {
			tot.maxq = res.MaxQueryMs
		}
		for f := range res.Funcs {
			funcs[f] = true
		}
		for f := range res.UFs {
			ufs[f] = true
		}
		for k, n := range res.Inconclusive {
			incon = append(incon, fmt.Sprintf("%s: x%d %s", res.Name, n, k))
		}
		if res.PathLimit {
			incon = append(incon, fmt.Sprintf("%s: path limit %d reached", res.Name, cfg.MaxPaths))
		}
		if res.TimeLimit {
			incon = append(incon, fmt.Sprintf("%s: time budget of %d s exhausted after %d paths; the remaining paths were not explored", res.Name, cfg.TimeBudgetS, res.Paths))
		}
		for _, l := range hs.Reach {
			if !res.Reached[l] {
				if res.TimeLimit || res.PathLimit {
					// the exploration was cut short: the witness may lie on a path that was not run
					incon = append(incon, fmt.Sprintf("%s: reachability witness %q not reached before the exploration budget ran out", res.Name, l))
					continue
				}
				vacuous = true
				incon = append(incon, fmt.Sprintf("%s: reachability witness %q not reached (vacuous harness)", res.Name, l))
			}
		}
		for _, o := range res.Samples {
			if len(samples) < 12 {
				samples = append(samples, map[string]interface{}{"harness": o.Harness, "obligation": o.Label, "kind": o.Kind, "where": o.Where, "verdict": o.Verdict, "ms": o.Millis, "solver": cfg.Backend})
			}
		}
		// group sat obligations by label and replay
		byLabel := map[string][]sym.Obligation{}
		var labels []string
		for _, o := range res.Obls {
			switch o.Verdict {
			case "sat":
				if hs.PanicsOnly && o.Kind == "assert" && !strings.HasPrefix(o.Label, "alloc:") {
					// a harness borrowed from another property: only run-time panics, allocation sizes
					// and unwinding bounds count here, its functional assertions belong to that property
					continue
				}
				if _, ok := byLabel[o.Label]; !ok {
					labels = append(labels, o.Label)
				}
				byLabel[o.Label] = append(byLabel[o.Label], o)
			case "unknown":
				incon = append(incon, fmt.Sprintf("%s: obligation %q unknown (%s) at %s", res.Name, o.Label, o.Note, o.Where))
			case "bound-exceeded":
				incon = append(incon, fmt.Sprintf("%s: %s at %s", res.Name, o.Label, o.Where))
			}
		}
		sort.Strings(labels)
		for _, label := range labels {
			obs := byLabel[label]
			confirmed := false
			var confirmedPath string
			tries := 0
			for _, o := range obs {
				if tries >= 3 {
					break
				}
				tries++
				rf := &ReplayFile{Property: id, Harness: hs.Name, Dir: hs.Dir, Label: label, Kind: o.Kind, Where: o.Where, Vars: o.Model, Params: cfg.Params, UF: o.UF}
				for k, v := range cfg.Params {
					if rf.Vars == nil {
						rf.Vars = map[string]string{}
					}
					rf.Vars["param:"+k] = strconv.Itoa(v)
				}
				for _, d := range o.Trace {
					if d.Case {
						rf.Decisions = append(rf.Decisions, d.Choice)
					}
				}
				os.MkdirAll(replayDir, 0o755)
				path := filepath.Join(replayDir, fmt.Sprintf("%s-%s-%d.json", hs.Name, sanitize(label), tries))
				b, _ := json.MarshalIndent(rf, "", " ")
				os.WriteFile(path, b, 0o644)
				replays++
				failed, panicked, out, err := nativeReplay(rf, path)
				if err != nil {
					incon = append(incon, fmt.Sprintf("%s: replay of %q failed to run: %v: %.400s", res.Name, label, err, out))
					os.Remove(path)
					continue
				}
				if replayMatches(rf, failed, panicked) {
					confirmed = true
					confirmedPath = path
					reproduced++
					samples = append(samples, map[string]interface{}{"harness": hs.Name, "obligation": label, "verdict": "sat, reproduced natively", "model": o.Model, "where": o.Where})
					break
				}
				spurious++
				if os.Getenv("GOSMT_KEEP_REPLAYS") == "" {
					os.Remove(path)
				}
			}
			if !confirmed {
				incon = append(incon, fmt.Sprintf("%s: obligation %q has %d solver models, none reproduced natively in %d replays (model of an uninterpreted function or stub is looser than the real code)", res.Name, label, len(obs), tries))
				continue
			}
			isKnown := false
			for _, k := range known {
				if k.kind == "known" && k.property == id && k.harness == hs.Name && k.label == label {
					isKnown = true
					knownLines = append(knownLines, fmt.Sprintf("KNOWN-FINDING: property=%s harness=%s label=%s %s", id, hs.Name, label, k.text))
				}
			}
			if !isKnown {
				violations++
				vioLines = append(vioLines, fmt.Sprintf("VIOLATION property=%s replay=%s harness=%s label=%s", id, confirmedPath, hs.Name, label))
			}
		}
	}
	if incon == nil {
		incon = []string{}
	}
	if knownLines == nil {
		knownLines = []string{}
	}
	ev := map[string]interface{}{}
	if spec.Extra != nil {
		v, n := spec.Extra(*tier, ev)
		for _, l := range v {
			violations++
			vioLines = append(vioLines, l)
		}
		incon = append(incon, n...)
	}
	for _, l := range knownLines {
		fmt.Println(l)
	}
	for _, l := range incon {
		fmt.Println("INCONCLUSIVE:", l)
	}
	for _, l := range vioLines {
		fmt.Println(l)
	}
	// evidence
	var fl []string
	for f := range funcs {
		if strings.Contains(f, "bchutil") || strings.Contains(f, "bchd") {
			fl = append(fl, f)
		}
	}
	sort.Strings(fl)
	var ul []string
	for f := range ufs {
		ul = append(ul, f)
	}
	sort.Strings(ul)
	if len(samples) == 0 {
		samples = append(samples, map[string]interface{}{"note": "all obligations were decided by the encoder's normaliser (constant-folded); see queries"})
	}
	level := spec.Level
	if level == "" {
		level = "model_checking"
	}
	states := tot.paths
	if states < 1 {
		states = 1
	}
	trans := tot.instrs
	if trans < 1 {
		trans = 1
	}
	cov := map[string]interface{}{
		"states":                        states,
		"transitions":                   trans,
		"traces_validated_against_impl": replays,
		"samples":                       samples,
		"explanation":                   spec.Explanation,
		"functions_encoded":             fl,
		"bounds":                        spec.Bounds[*tier],
		"queries": map[string]interface{}{"total": tot.queries, "obligations_unsat": tot.unsat, "obligations_folded_by_normaliser": tot.trivial,
			"sat": tot.sat, "sat_replayed_reproduced": reproduced, "sat_spurious": spurious, "unknown": tot.unknown, "bound_exceeded": tot.bound, "max_query_ms": tot.maxq},
		"solver_s":            tot.solver,
		"solver_versions":     map[string]string{"z3": "4.8.12", "z3new": "5.1.0", "cvc5": "1.0.3"},
		"uninterpreted":       ul,
		"outside_claim":       spec.Outside,
		"inconclusive":        incon,
		"known_findings":      knownLines,
		"load_s":              loadS,
		"harnesses":           harnessSummaries(results),
		"exhaustive":          false,
		"evaluations":         tot.trivial + tot.unsat + tot.sat + tot.unknown,
		"distinct_nontrivial": tot.unsat + tot.sat,
		"rule":                "one evaluation = one proof obligation (assertion, implicit panic check or unwinding assertion) on one symbolic path; non-trivial = needed an SMT query",
	}
	supports := 0
	var sweepMs int64
	for _, r := range results {
		supports += r.Supports
		sweepMs += r.SweepMs
	}
	if supports > 0 {
		cov["supports_checked"] = supports
		cov["sweep_solver_s"] = float64(sweepMs) / 1000
		q := cov["queries"].(map[string]interface{})
		q["support_queries"] = supports
		q["total"] = tot.queries + supports
		cov["evaluations"] = tot.trivial + tot.unsat + tot.sat + tot.unknown + supports
		cov["distinct_nontrivial"] = tot.unsat + tot.sat + supports
	}
	for k, v := range ev {
		cov[k] = v
	}
	assumptions := append([]string{}, commonAssumptions...)
	assumptions = append(assumptions, spec.Assumptions...)
	if spec.Outside == nil {
		spec.Outside = []string{}
	}
	cov["outside_claim"] = spec.Outside
	if spec.Explanation == "" {
		cov["explanation"] = "bounded symbolic execution of the listed functions; every obligation is an SMT query (or was folded to true by the encoder's normaliser); sat answers are replayed natively before being reported"
	}
	evid := map[string]interface{}{
		"property_id": id,
		"tier":        *tier,
		"seed":        seed,
		"level":       level,
		"coverage":    cov,
		"assumptions": assumptions,
		"wall_s":      time.Since(t0).Seconds(),
		"violations":  violations,
	}
	evDir := filepath.Join(verifDir, "evidence")
	if d := os.Getenv("GOSMT_EVIDENCE"); d != "" {
		evDir = d // seeded-change experiments must not overwrite the evidence of the real tree
	}
	os.MkdirAll(evDir, 0o755)
	eb, _ := json.MarshalIndent(evid, "", " ")
	os.WriteFile(filepath.Join(evDir, id+".json"), eb, 0o644)
	fmt.Printf("check %s tier=%s: paths=%d obligations: folded=%d unsat=%d sat=%d unknown=%d bound=%d replays=%d violations=%d wall=%.1fs\n",
		id, *tier, tot.paths, tot.trivial, tot.unsat, tot.sat, tot.unknown, tot.bound, replays, violations, time.Since(t0).Seconds())
	if violations > 0 {
		return 1
	}
	if vacuous {
		fmt.Println("CHECK-BROKEN: vacuous harness (see INCONCLUSIVE lines)")
		return 2
	}
	return 0
}

func harnessSummaries(rs []*sym.HarnessResult) []interface{} {
	var out []interface{}
	for _, r := range rs {
		var reached []string
		for l := range r.Reached {
			reached = append(reached, l)
		}
		sort.Strings(reached)
		out = append(out, map[string]interface{}{"name": r.Name, "paths": r.Paths, "dead_paths": r.DeadPaths, "instrs": r.Instrs, "folded": r.NTrivial, "unsat": r.NUnsat, "sat": r.NSat,
			"unknown": r.NUnknown, "bound": r.NBound, "supports_checked": r.Supports, "sweep_solver_ms": r.SweepMs, "queries": r.Queries, "feasibility_queries": r.FeasQueries, "solver_s": r.SolverTime.Seconds(), "wall_s": r.Wall.Seconds(), "reached": reached})
	}
	return out
}

const siphashDir = "/root/go/pkg/mod/github.com/aead/siphash@v1.0.1"

// ufOverlay: when the model fixes values of the uninterpreted SipHash, the replay runs the real
// bchutil code against a SipHash that returns exactly those values for those inputs (and the real
// SipHash everywhere else). The dependency file is replaced through the build overlay only.
func ufOverlay(rf *ReplayFile, tmp string, replace map[string]string) error {
	table := map[string]string{}
	// fastReduction is a second uninterpreted function (floor(v*NM/2^64)); pick SipHash outputs
	// that make the REAL fastReduction produce the model's reduced values: v = ceil(r*2^64/NM)
	adjust := map[string]string{}
	for _, u := range rf.UF {
		if u.Name == "vUF64:fastreduction" && len(u.Args) == 3 {
			v, _ := new(big.Int).SetString(u.Args[0], 16)
			nm, _ := new(big.Int).SetString(u.Args[1], 16)
			r, _ := new(big.Int).SetString(u.Val, 10)
			if nm.Sign() > 0 {
				num := new(big.Int).Lsh(r, 64)
				num.Add(num, new(big.Int).Sub(nm, big.NewInt(1)))
				num.Div(num, nm)
				if num.BitLen() <= 64 {
					adjust[v.String()] = num.String()
				}
			}
		}
	}
	for _, u := range rf.UF {
		if u.Name == "github.com/aead/siphash.Sum64" && len(u.Args) == 2 {
			val := u.Val
			if a, ok := adjust[val]; ok {
				val = a
			}
			table[u.Args[0]+"|"+u.Args[1]] = val
		}
	}
	if len(table) == 0 {
		return nil
	}
	src, err := os.ReadFile(filepath.Join(siphashDir, "siphash.go"))
	if err != nil {
		return err
	}
	mod := strings.Replace(string(src), "func Sum64(msg []byte, key *[KeySize]byte) uint64 {", "func Sum64(msg []byte, key *[KeySize]byte) uint64 {\n\tif v, ok := zzLookupSum64(msg, key); ok {\n\t\treturn v\n\t}\n\treturn realSum64(msg, key)\n}\n\nfunc realSum64(msg []byte, key *[KeySize]byte) uint64 {", 1)
	if mod == string(src) {
		return fmt.Errorf("siphash.Sum64 not found for UF overlay")
	}
	var sb strings.Builder
	sb.WriteString(mod)
	sb.WriteString("\n\nvar zzTable = map[string]uint64{\n")
	for k, v := range table {
		parts := strings.SplitN(k, "|", 2)
		mb, _ := hex.DecodeString(parts[0])
		kb, _ := hex.DecodeString(parts[1])
		fmt.Fprintf(&sb, "\t%q: %s,\n", string(mb)+"|"+string(kb), v)
	}
	sb.WriteString("}\n\nfunc zzLookupSum64(msg []byte, key *[KeySize]byte) (uint64, bool) {\n\tv, ok := zzTable[string(msg)+\"|\"+string(key[:])]\n\treturn v, ok\n}\n")
	f1 := filepath.Join(tmp, "siphash.go")
	os.WriteFile(f1, []byte(sb.String()), 0o644)
	replace[filepath.Join(siphashDir, "siphash.go")] = f1
	return nil
}
