package main

import "verif/engine/sym"

var props = map[string]*PropSpec{}

func reg(p *PropSpec) { props[p.ID] = p }

func params(lazy bool, kv ...interface{}) func(c *sym.HarnessCfg, tier string) {
	return func(c *sym.HarnessCfg, tier string) {
		c.Lazy = lazy
		for i := 0; i+1 < len(kv); i += 2 {
			c.Params[kv[i].(string)] = kv[i+1].(int)
		}
	}
}

func init() {
	reg(&PropSpec{
		ID: "C01",
		Harnesses: []HarnessSpec{
			{Dir: "root", Name: "ZZ_C01_cash", Reach: []string{"end"}},
			{Dir: "root", Name: "ZZ_C01_p2sh32", Reach: []string{"end"}},
			{Dir: "root", Name: "ZZ_C01_script", Reach: []string{"end"}, Tweak: func(c *sym.HarnessCfg, tier string) {
				if tier == "thorough" {
					c.Params["maxscript"] = 8
				}
			}},
		},
	})
	reg(&PropSpec{
		ID: "C02",
		Harnesses: []HarnessSpec{
			{Dir: "root", Name: "ZZ_C02_cash", Reach: []string{"accepted", "rejected"}, Tweak: params(true)},
		},
	})
	reg(&PropSpec{
		ID: "C03",
		Harnesses: []HarnessSpec{
			{Dir: "root", Name: "ZZ_C03_cash", Variant: "L112w3", Reach: []string{"accepted", "rejected"}, Tweak: params(true, "paylen", 104, "w", 3)},
			{Dir: "root", Name: "ZZ_C03_cash", Variant: "L42w4", Reach: []string{"accepted"}, Tweak: params(true, "paylen", 34, "w", 4)},
			{Dir: "root", Name: "ZZ_C03_cash", Variant: "L42w5", Tiers: "thorough", Reach: []string{"accepted"}, Tweak: params(true, "paylen", 34, "w", 5)},
			{Dir: "root", Name: "ZZ_C03_cash", Variant: "L61w5", Tiers: "thorough", Reach: []string{"accepted"}, Tweak: params(true, "paylen", 53, "w", 5)},
			{Dir: "root", Name: "ZZ_C03_cash", Variant: "L112w4", Tiers: "thorough", Reach: []string{"accepted"}, Tweak: params(true, "paylen", 104, "w", 4)},
			{Dir: "bech32", Name: "ZZ_C03_bech32", Variant: "D88w3", Reach: []string{"accepted", "rejected"}, Tweak: params(true, "datalen", 82, "w", 3)},
			{Dir: "bech32", Name: "ZZ_C03_bech32", Variant: "D88w4", Tiers: "thorough", Reach: []string{"accepted"}, Tweak: params(true, "datalen", 82, "w", 4)},
		},
	})
	fp := func(backend string, relax bool) func(c *sym.HarnessCfg, tier string) {
		return func(c *sym.HarnessCfg, tier string) {
			c.Backend = backend
			c.RelaxFDiv = relax
			c.TimeoutMs = 600000
			c.FeasTimeoutMs = 20000
		}
	}
	reg(&PropSpec{
		ID: "C17",
		Harnesses: []HarnessSpec{
			{Dir: "root", Name: "ZZ_C17_round", Reach: []string{"in"}, Tweak: fp("z3", false)},
			{Dir: "root", Name: "ZZ_C17_newamount", Reach: []string{"finite", "nonfinite", "odd"}, Tweak: fp("z3", false)},
			{Dir: "root", Name: "ZZ_C17_mulf64", Reach: []string{"in"}, Tweak: fp("z3", false)},
			{Dir: "root", Name: "ZZ_C17_units", Reach: []string{"in"}, Tweak: fp("z3", false)},
			{Dir: "root", Name: "ZZ_C17_monotone", Reach: []string{"in"}, Tweak: fp("cvc5", false)},
			{Dir: "root", Name: "ZZ_C17_roundtrip", Reach: []string{"in"}, Tweak: fp("cvc5", true)},
		},
	})
	reg(&PropSpec{
		ID: "C18",
		Harnesses: []HarnessSpec{
			{Dir: "txsort", Name: "ZZ_C18_sort", Variant: "in<=2,out<=2,script<=1", Reach: []string{"end"}, Tweak: params(false, "maxin", 2, "maxout", 2, "maxscript", 1)},
			{Dir: "txsort", Name: "ZZ_C18_sort", Variant: "in=3", Reach: []string{"end"}, Tweak: params(false, "minin", 3, "maxin", 3, "maxout", 0)},
			{Dir: "txsort", Name: "ZZ_C18_sort", Variant: "out=3,script<=2", Reach: []string{"end"}, Tweak: params(false, "maxin", 0, "minout", 3, "maxout", 3, "maxscript", 2)},
			{Dir: "txsort", Name: "ZZ_C18_sort", Variant: "in=4", Tiers: "thorough", Reach: []string{"end"}, Tweak: params(false, "minin", 4, "maxin", 4, "maxout", 0)},
			{Dir: "txsort", Name: "ZZ_C18_sort", Variant: "out=4,script<=2", Tiers: "thorough", Reach: []string{"end"}, Tweak: params(false, "maxin", 0, "minout", 4, "maxout", 4, "maxscript", 2)},
			{Dir: "txsort", Name: "ZZ_C18_sort", Variant: "in<=3,out<=3,script<=1", Tiers: "thorough", Reach: []string{"end"}, Tweak: params(false, "maxin", 3, "maxout", 3, "maxscript", 1)},
		},
	})
	reg(&PropSpec{
		ID: "C19",
		Harnesses: []HarnessSpec{
			{Dir: "coinset", Name: "ZZ_C19_select", Variant: "coins<=2", Reach: []string{"minindex-ok", "minindex-fail", "minnumber-ok", "maxvalueage-ok", "minpriority-ok", "minpriority-fail"}, Tweak: params(false, "maxcoins", 2)},
			{Dir: "coinset", Name: "ZZ_C19_coinset", Reach: []string{"end"}, Tweak: params(false, "steps", 3)},
			{Dir: "coinset", Name: "ZZ_C19_select", Variant: "coins<=3", Tiers: "thorough", Reach: []string{"minpriority-ok"}, Tweak: params(false, "maxcoins", 3)},
			{Dir: "coinset", Name: "ZZ_C19_coinset", Variant: "steps=5", Tiers: "thorough", Reach: []string{"end"}, Tweak: params(false, "steps", 5)},
		},
	})
	bloomCfg := func(kv ...interface{}) func(c *sym.HarnessCfg, tier string) {
		return func(c *sym.HarnessCfg, tier string) {
			c.UFRem = true
			c.SymbolicMake = true
			c.UFCalls = map[string]bool{"github.com/gcash/bchutil/bloom.MurmurHash3": true}
			for i := 0; i+1 < len(kv); i += 2 {
				c.Params[kv[i].(string)] = kv[i+1].(int)
			}
		}
	}
	reg(&PropSpec{
		ID: "C09",
		Harnesses: []HarnessSpec{
			{Dir: "bloom", Name: "ZZ_C09_insert", Variant: "k<=4", Reach: []string{"end"}, Tweak: bloomCfg("maxk", 4)},
			{Dir: "bloom", Name: "ZZ_C09_query", Variant: "k<=4", Reach: []string{"end"}, Tweak: bloomCfg("maxk", 4)},
			{Dir: "bloom", Name: "ZZ_C09_murmur", Variant: "len<=12", Reach: []string{"end"}, Tweak: params(false, "maxlen", 12)},
			{Dir: "bloom", Name: "ZZ_C09_sizing", Reach: []string{"end"}, Tweak: func(c *sym.HarnessCfg, tier string) {
				c.SymbolicMake = true
				c.MaxAlloc = 1 << 33
				c.Backend = "cvc5"
			}},
			{Dir: "bloom", Name: "ZZ_C09_unloaded", Reach: []string{"end"}, Tweak: bloomCfg()},
			{Dir: "bloom", Name: "ZZ_C09_insert", Variant: "k<=8", Tiers: "thorough", Reach: []string{"end"}, Tweak: bloomCfg("mink", 5, "maxk", 8)},
			{Dir: "bloom", Name: "ZZ_C09_query", Variant: "k<=50", Tiers: "thorough", Reach: []string{"end"}, Tweak: bloomCfg("mink", 5, "maxk", 50)},
			{Dir: "bloom", Name: "ZZ_C09_murmur", Variant: "len<=36", Tiers: "thorough", Reach: []string{"end"}, Tweak: params(false, "maxlen", 36)},
		},
	})
	bloomStubs := func(kv ...interface{}) func(c *sym.HarnessCfg, tier string) {
		f := bloomCfg(kv...)
		return func(c *sym.HarnessCfg, tier string) {
			f(c, tier)
			c.Stubs = map[string]string{
				"github.com/gcash/bchd/txscript.PushedData":     "zzStubPushedData",
				"github.com/gcash/bchd/txscript.GetScriptClass": "zzStubScriptClass",
				"(*github.com/gcash/bchd/wire.MsgTx).TxHash":    "zzStubTxHash",
			}
		}
	}
	reg(&PropSpec{
		ID: "C10",
		Harnesses: []HarnessSpec{
			{Dir: "bloom", Name: "ZZ_C10_matchtx", Variant: "k<=1,out<=1,in<=1,pushes<=1", Reach: []string{"end"}, Tweak: bloomStubs("maxk", 1, "maxout", 1, "maxin", 1, "maxpushes", 1, "maxpushlen", 1)},
			{Dir: "bloom", Name: "ZZ_C10_matchtx", Variant: "k<=2,out<=2,in<=1,pushes<=2", Tiers: "thorough", Reach: []string{"end"}, Tweak: bloomStubs("maxk", 2, "maxout", 2, "maxin", 1, "maxpushes", 2, "maxpushlen", 1)},
		},
	})
	reg(&PropSpec{
		ID:    "C20",
		Level: "other",
		Harnesses: []HarnessSpec{
			{Dir: "bloom", Name: "ZZ_C20_locking", Reach: []string{"end"}, Tweak: bloomStubs("maxpushes", 1, "maxpushlen", 1)},
		},
	})
	merkleCfg := func(kv ...interface{}) func(c *sym.HarnessCfg, tier string) {
		return func(c *sym.HarnessCfg, tier string) {
			c.InjectiveUF = true
			for i := 0; i+1 < len(kv); i += 2 {
				if kv[i].(string) == "lazy" {
					c.Lazy = kv[i+1].(int) == 1
				}
			}
			c.Stubs = map[string]string{
				"(*github.com/gcash/bchd/wire.MsgTx).TxHash":                "zzStubTxHash",
				"(*github.com/gcash/bchutil/bloom.Filter).MatchTxAndUpdate": "zzStubMatchTx",
			}
			for i := 0; i+1 < len(kv); i += 2 {
				c.Params[kv[i].(string)] = kv[i+1].(int)
			}
		}
	}
	reg(&PropSpec{
		ID: "C11",
		Harnesses: []HarnessSpec{
			{Dir: "merkleblock", Name: "ZZ_C11_build", Variant: "n<=5", Reach: []string{"end"}, Tweak: merkleCfg("maxn", 5)},
			{Dir: "merkleblock", Name: "ZZ_C11_build", Variant: "n=6..9", Tiers: "thorough", Reach: []string{"end"}, Tweak: merkleCfg("minn", 6, "maxn", 9)},
		},
	})
	reg(&PropSpec{
		ID: "C12",
		Harnesses: []HarnessSpec{
			{Dir: "merkleblock", Name: "ZZ_C12_extract", Variant: "n<=2,flags<=1B,4-hash alphabet", Reach: []string{"extracted", "accepted"}, Tweak: merkleCfg("maxn", 2, "maxflagbytes", 1, "hashbits", 2)},
			{Dir: "merkleblock", Name: "ZZ_C12_extract", Variant: "n<=4,flags<=1B,full hashes", Tiers: "thorough", Reach: []string{"extracted", "accepted"}, Tweak: merkleCfg("maxn", 4, "maxflagbytes", 1, "bigcounthashes", 2)},
		},
	})
}
