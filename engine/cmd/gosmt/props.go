package main

import "verif/engine/sym"

var props = map[string]*PropSpec{}

func reg(p *PropSpec) { props[p.ID] = p }

func init() {
	reg(&PropSpec{
		ID: "C01",
		Harnesses: []HarnessSpec{
			{Dir: "root", Name: "ZZ_C01_cash", Reach: []string{"end"}},
			{Dir: "root", Name: "ZZ_C01_p2sh32", Reach: []string{"end"}},
			{Dir: "root", Name: "ZZ_C01_script", Reach: []string{"end"}, Tweak: func(c *sym.HarnessCfg, tier string) {
				if tier == "thorough" {
					c.Params["maxscript"] = 8
				}
			}},
		},
	})
}
