package main

import "verif/engine/sym"

var props = map[string]*PropSpec{}

func reg(p *PropSpec) { props[p.ID] = p }

func params(lazy bool, kv ...interface{}) func(c *sym.HarnessCfg, tier string) {
	return func(c *sym.HarnessCfg, tier string) {
		c.Lazy = lazy
		for i := 0; i+1 < len(kv); i += 2 {
			c.Params[kv[i].(string)] = kv[i+1].(int)
		}
	}
}

func init() {
	reg(&PropSpec{
		ID: "C01",
		Harnesses: []HarnessSpec{
			{Dir: "root", Name: "ZZ_C01_cash", Reach: []string{"end"}},
			{Dir: "root", Name: "ZZ_C01_p2sh32", Reach: []string{"end"}},
			{Dir: "root", Name: "ZZ_C01_script", Reach: []string{"end"}, Tweak: func(c *sym.HarnessCfg, tier string) {
				if tier == "thorough" {
					c.Params["maxscript"] = 8
				}
			}},
		},
	})
	reg(&PropSpec{
		ID: "C02",
		Harnesses: []HarnessSpec{
			{Dir: "root", Name: "ZZ_C02_cash", Reach: []string{"accepted", "rejected"}, Tweak: params(true)},
		},
	})
	reg(&PropSpec{
		ID: "C03",
		Harnesses: []HarnessSpec{
			{Dir: "root", Name: "ZZ_C03_cash", Variant: "L112w3", Reach: []string{"accepted", "rejected"}, Tweak: params(true, "paylen", 104, "w", 3)},
			{Dir: "root", Name: "ZZ_C03_cash", Variant: "L42w4", Reach: []string{"accepted"}, Tweak: params(true, "paylen", 34, "w", 4)},
			{Dir: "root", Name: "ZZ_C03_cash", Variant: "L42w5", Tiers: "thorough", Reach: []string{"accepted"}, Tweak: params(true, "paylen", 34, "w", 5)},
			{Dir: "root", Name: "ZZ_C03_cash", Variant: "L61w5", Tiers: "thorough", Reach: []string{"accepted"}, Tweak: params(true, "paylen", 53, "w", 5)},
			{Dir: "root", Name: "ZZ_C03_cash", Variant: "L112w4", Tiers: "thorough", Reach: []string{"accepted"}, Tweak: params(true, "paylen", 104, "w", 4)},
			{Dir: "bech32", Name: "ZZ_C03_bech32", Variant: "D88w3", Reach: []string{"accepted", "rejected"}, Tweak: params(true, "datalen", 82, "w", 3)},
			{Dir: "bech32", Name: "ZZ_C03_bech32", Variant: "D88w4", Tiers: "thorough", Reach: []string{"accepted"}, Tweak: params(true, "datalen", 82, "w", 4)},
		},
	})
}
