package main

import "verif/engine/sym"

var props = map[string]*PropSpec{}

func reg(p *PropSpec) { props[p.ID] = p }

func params(lazy bool, kv ...interface{}) func(c *sym.HarnessCfg, tier string) {
	return func(c *sym.HarnessCfg, tier string) {
		c.Lazy = lazy
		for i := 0; i+1 < len(kv); i += 2 {
			c.Params[kv[i].(string)] = kv[i+1].(int)
		}
	}
}

func init() {
	reg(&PropSpec{
		ID: "C01",
		Harnesses: []HarnessSpec{
			{Dir: "root", Name: "ZZ_selfcheck_root", Reach: []string{"end"}},
			{Dir: "root", Name: "ZZ_C01_cash", Reach: []string{"end"}},
			{Dir: "root", Name: "ZZ_C01_p2sh32", Reach: []string{"end"}},
			{Dir: "root", Name: "ZZ_C01_script", Reach: []string{"end"}, Tweak: func(c *sym.HarnessCfg, tier string) {
				if tier == "thorough" {
					c.Params["maxscript"] = 8
				}
			}},
			{Dir: "root", Name: "ZZ_C01_legacy", Variant: "encode side", Reach: []string{"end"}, Tweak: ecStubs(true)},
			{Dir: "root", Name: "ZZ_C01_pubkey", Variant: "mainnet,16 symbolic coordinate bits", Tiers: "thorough", Reach: []string{"end"}, Tweak: chain(ecStubs(true), params(true, "symbytes", 2))},
		},
	})
	realB58 := func(kv ...interface{}) func(c *sym.HarnessCfg, tier string) {
		return func(c *sym.HarnessCfg, tier string) {
			c.RealBase58 = true
			for i := 0; i+1 < len(kv); i += 2 {
				c.Params[kv[i].(string)] = kv[i+1].(int)
			}
		}
	}
	reg(&PropSpec{
		ID: "C02",
		Harnesses: []HarnessSpec{
			{Dir: "root", Name: "ZZ_C02_cash", Reach: []string{"accepted", "rejected"}, Tweak: params(true)},
			{Dir: "root", Name: "ZZ_C02_prefix", Reach: []string{"in"}, Tweak: params(true)},
			// discharges the assumption "a string with a foreign character Base58-decodes to nothing" that the
			// abstract Base58 boundary of this property's other harnesses relies on (real Decode/CheckDecode)
			{Dir: "base58", Name: "ZZ_C07_b58_foreign", Variant: "bytes<=3", Reach: []string{"end"}, Tweak: realB58("maxchars", 3)},
		},
	})
	reg(&PropSpec{
		ID: "C03",
		Harnesses: []HarnessSpec{
			{Dir: "root", Name: "ZZ_C03_cash", Variant: "L112w3", Reach: []string{"accepted", "rejected"}, Tweak: params(true, "paylen", 104, "w", 3)},
			{Dir: "root", Name: "ZZ_C03_cash", Variant: "L42w4", Reach: []string{"accepted"}, Tweak: params(true, "paylen", 34, "w", 4)},
			{Dir: "root", Name: "ZZ_C03_cash", Variant: "L42w5", Tiers: "thorough", Reach: []string{"accepted"}, Tweak: params(true, "paylen", 34, "w", 5)},
			{Dir: "root", Name: "ZZ_C03_cash", Variant: "L61w5", Tiers: "thorough", Reach: []string{"accepted"}, Tweak: params(true, "paylen", 53, "w", 5)},
			{Dir: "root", Name: "ZZ_C03_cash", Variant: "L112w4", Tiers: "thorough", Reach: []string{"accepted"}, Tweak: params(true, "paylen", 104, "w", 4)},
			{Dir: "bech32", Name: "ZZ_C03_bech32", Variant: "D88w3", Reach: []string{"accepted", "rejected"}, Tweak: params(true, "datalen", 82, "w", 3)},
			{Dir: "root", Name: "ZZ_C03_cash_foreign", Variant: "L10", Reach: []string{"in"}, Tweak: params(false, "paylen", 2)},
			{Dir: "bech32", Name: "ZZ_C03_bech32_foreign", Variant: "D8", Reach: []string{"in"}, Tweak: params(false, "datalen", 2)},
			{Dir: "bech32", Name: "ZZ_C03_bech32", Variant: "D88w4", Tiers: "thorough", Reach: []string{"accepted"}, Tweak: params(true, "datalen", 82, "w", 4)},
		},
	})
	fp := func(backend string, relax bool) func(c *sym.HarnessCfg, tier string) {
		return func(c *sym.HarnessCfg, tier string) {
			c.Backend = backend
			c.RelaxFDiv = relax
			c.TimeoutMs = 600000
			c.FeasTimeoutMs = 20000
		}
	}
	reg(&PropSpec{
		ID: "C17",
		Harnesses: []HarnessSpec{
			{Dir: "root", Name: "ZZ_C17_round", Reach: []string{"in"}, Tweak: fp("z3", false)},
			{Dir: "root", Name: "ZZ_C17_newamount", Reach: []string{"finite", "nonfinite", "odd"}, Tweak: fp("z3", false)},
			{Dir: "root", Name: "ZZ_C17_mulf64", Reach: []string{"in"}, Tweak: fp("z3", false)},
			{Dir: "root", Name: "ZZ_C17_units", Reach: []string{"in"}, Tweak: fp("z3", false)},
			{Dir: "root", Name: "ZZ_C17_monotone", Reach: []string{"in"}, Tweak: fp("cvc5", false)},
			{Dir: "root", Name: "ZZ_C17_roundtrip", Reach: []string{"in"}, Tweak: fp("cvc5", true)},
		},
	})
	reg(&PropSpec{
		ID: "C18",
		Harnesses: []HarnessSpec{
			{Dir: "txsort", Name: "ZZ_C18_sort", Variant: "in<=3,hash bytes {0,1,30,31} symbolic", Reach: []string{"end"}, Tweak: params(false, "maxin", 3, "maxout", 0, "sparsehash", 1)},
			{Dir: "txsort", Name: "ZZ_C18_sort", Variant: "in=4,hash bytes {0,1,30,31} symbolic", Reach: []string{"end"}, Tweak: params(false, "minin", 4, "maxin", 4, "maxout", 0, "sparsehash", 1)},
			{Dir: "txsort", Name: "ZZ_C18_sort", Variant: "in<=2,out<=2,script<=1", Reach: []string{"end"}, Tweak: params(false, "maxin", 2, "maxout", 2, "maxscript", 1)},
			{Dir: "txsort", Name: "ZZ_C18_sort", Variant: "in=3", Reach: []string{"end"}, Tweak: params(false, "minin", 3, "maxin", 3, "maxout", 0)},
			{Dir: "txsort", Name: "ZZ_C18_sort", Variant: "out=3,script<=2", Reach: []string{"end"}, Tweak: params(false, "maxin", 0, "minout", 3, "maxout", 3, "maxscript", 2)},
			{Dir: "txsort", Name: "ZZ_C18_sort", Variant: "in=4", Tiers: "thorough", Reach: []string{"end"}, Tweak: params(false, "minin", 4, "maxin", 4, "maxout", 0)},
			{Dir: "txsort", Name: "ZZ_C18_sort", Variant: "out=4,script<=2", Tiers: "thorough", Reach: []string{"end"}, Tweak: params(false, "maxin", 0, "minout", 4, "maxout", 4, "maxscript", 2)},
			{Dir: "txsort", Name: "ZZ_C18_sort", Variant: "in<=3,out<=3,script<=1", Tiers: "thorough", Reach: []string{"end"}, Tweak: params(false, "maxin", 3, "maxout", 3, "maxscript", 1)},
		},
	})
	reg(&PropSpec{
		ID: "C19",
		Harnesses: []HarnessSpec{
			{Dir: "coinset", Name: "ZZ_C19_select", Variant: "coins<=2", Reach: []string{"minindex-ok", "minindex-fail", "minnumber-ok", "maxvalueage-ok", "minpriority-ok", "minpriority-fail"}, Tweak: params(false, "maxcoins", 2)},
			{Dir: "coinset", Name: "ZZ_C19_coinset", Reach: []string{"end"}, Tweak: params(false, "steps", 3)},
			{Dir: "coinset", Name: "ZZ_C19_select", Variant: "coins<=3", Tiers: "thorough", Reach: []string{"minpriority-ok"}, Tweak: params(false, "maxcoins", 3)},
			{Dir: "coinset", Name: "ZZ_C19_coinset", Variant: "steps=5", Tiers: "thorough", Reach: []string{"end"}, Tweak: params(false, "steps", 5)},
		},
	})
	bloomCfg := func(kv ...interface{}) func(c *sym.HarnessCfg, tier string) {
		return func(c *sym.HarnessCfg, tier string) {
			c.UFRem = true
			c.SymbolicMake = true
			c.UFCalls = map[string]bool{"github.com/gcash/bchutil/bloom.MurmurHash3": true}
			for i := 0; i+1 < len(kv); i += 2 {
				c.Params[kv[i].(string)] = kv[i+1].(int)
			}
		}
	}
	reg(&PropSpec{
		ID: "C09",
		Harnesses: []HarnessSpec{
			{Dir: "bloom", Name: "ZZ_selfcheck_bloom", Reach: []string{"end"}},
			{Dir: "bloom", Name: "ZZ_C09_insert", Variant: "k<=4", Reach: []string{"end"}, Tweak: bloomCfg("maxk", 4)},
			{Dir: "bloom", Name: "ZZ_C09_query", Variant: "k<=4", Reach: []string{"end"}, Tweak: bloomCfg("maxk", 4)},
			{Dir: "bloom", Name: "ZZ_C09_murmur", Variant: "len<=12", Reach: []string{"end"}, Tweak: params(false, "maxlen", 12)},
			{Dir: "bloom", Name: "ZZ_C09_sizing", Reach: []string{"end"}, Tweak: func(c *sym.HarnessCfg, tier string) {
				c.SymbolicMake = true
				c.MaxAlloc = 1 << 33
				c.Backend = "cvc5"
			}},
			{Dir: "bloom", Name: "ZZ_C09_unloaded", Reach: []string{"end"}, Tweak: bloomCfg()},
			{Dir: "bloom", Name: "ZZ_C09_reload", Variant: "k<=2", Reach: []string{"end"}, Tweak: bloomCfg("maxk", 2)},
			{Dir: "bloom", Name: "ZZ_C09_insert", Variant: "k<=8", Tiers: "thorough", Reach: []string{"end"}, Tweak: bloomCfg("mink", 5, "maxk", 8)},
			{Dir: "bloom", Name: "ZZ_C09_query", Variant: "k<=50", Tiers: "thorough", Reach: []string{"end"}, Tweak: bloomCfg("mink", 5, "maxk", 50)},
			{Dir: "bloom", Name: "ZZ_C09_murmur", Variant: "len<=36", Tiers: "thorough", Reach: []string{"end"}, Tweak: params(false, "maxlen", 36)},
		},
	})
	bloomStubs := func(kv ...interface{}) func(c *sym.HarnessCfg, tier string) {
		f := bloomCfg(kv...)
		return func(c *sym.HarnessCfg, tier string) {
			f(c, tier)
			c.Stubs = map[string]string{
				"github.com/gcash/bchd/txscript.PushedData":     "zzStubPushedData",
				"github.com/gcash/bchd/txscript.GetScriptClass": "zzStubScriptClass",
				"(*github.com/gcash/bchd/wire.MsgTx).TxHash":    "zzStubTxHash",
			}
		}
	}
	reg(&PropSpec{
		ID: "C10",
		Harnesses: []HarnessSpec{
			{Dir: "bloom", Name: "ZZ_C10_matchtx", Variant: "k<=1,out<=1,in<=1,pushes<=1", Reach: []string{"end"}, Tweak: bloomStubs("maxk", 1, "maxout", 1, "maxin", 1, "maxpushes", 1, "maxpushlen", 1)},
			{Dir: "bloom", Name: "ZZ_C10_block", Variant: "tx<=2 (thorough 3),in<=1", Reach: []string{"end"}, Tweak: func(c *sym.HarnessCfg, tier string) {
				c.Params["maxtx"], c.Params["maxin"] = 2, 1
				if tier == "thorough" {
					c.Params["maxtx"] = 3
				}
				c.Stubs = map[string]string{
					"(*github.com/gcash/bchutil/bloom.Filter).MatchTxAndUpdate": "zzStubIdealMatch",
					"(*github.com/gcash/bchd/wire.MsgTx).TxHash":                "zzStubIdealTxHash",
				}
			}},
			{Dir: "bloom", Name: "ZZ_C10_matchtx", Variant: "k<=2,out<=2,in<=1,pushes<=2", Tiers: "thorough", Reach: []string{"end"}, Tweak: bloomStubs("maxk", 2, "maxout", 2, "maxin", 1, "maxpushes", 2, "maxpushlen", 1)},
		},
	})
	reg(&PropSpec{
		ID:    "C20",
		Level: "other",
		Harnesses: []HarnessSpec{
			{Dir: "bloom", Name: "ZZ_C20_locking", Reach: []string{"end"}, Tweak: bloomStubs("maxpushes", 1, "maxpushlen", 1)},
		},
	})
	merkleCfg := func(kv ...interface{}) func(c *sym.HarnessCfg, tier string) {
		return func(c *sym.HarnessCfg, tier string) {
			c.InjectiveUF = true
			for i := 0; i+1 < len(kv); i += 2 {
				if kv[i].(string) == "lazy" {
					c.Lazy = kv[i+1].(int) == 1
				}
			}
			c.Stubs = map[string]string{
				"(*github.com/gcash/bchd/wire.MsgTx).TxHash":                "zzStubTxHash",
				"(*github.com/gcash/bchutil/bloom.Filter).MatchTxAndUpdate": "zzStubMatchTx",
			}
			for i := 0; i+1 < len(kv); i += 2 {
				c.Params[kv[i].(string)] = kv[i+1].(int)
			}
		}
	}
	reg(&PropSpec{
		ID: "C11",
		Harnesses: []HarnessSpec{
			{Dir: "merkleblock", Name: "ZZ_C11_build", Variant: "n<=5", Reach: []string{"end"}, Tweak: merkleCfg("maxn", 5)},
			{Dir: "merkleblock", Name: "ZZ_C11_build", Variant: "n=6..65,structured subsets,concrete ids", Reach: []string{"end"}, Tweak: merkleCfg("minn", 6, "maxn", 65, "structured", 1, "concretehashes", 1)},
			{Dir: "merkleblock", Name: "ZZ_C11_build", Variant: "n=256..257,structured subsets,concrete ids", Tiers: "thorough", Reach: []string{"end"}, Tweak: merkleCfg("minn", 256, "maxn", 257, "structured", 1, "concretehashes", 1)},
			{Dir: "merkleblock", Name: "ZZ_C11_build", Variant: "n=6..9", Tiers: "thorough", Reach: []string{"end"}, Tweak: merkleCfg("minn", 6, "maxn", 9)},
		},
	})
	reg(&PropSpec{
		ID: "C12",
		Harnesses: []HarnessSpec{
			{Dir: "merkleblock", Name: "ZZ_C12_extract", Variant: "n<=2,flags<=1B,4-hash alphabet", Reach: []string{"extracted", "accepted"}, Tweak: merkleCfg("maxn", 2, "maxflagbytes", 1, "hashbits", 2)},
			{Dir: "merkleblock", Name: "ZZ_C12_extract", Variant: "n=4,<=2 hashes,4-hash alphabet", Reach: []string{"extracted"}, Tweak: merkleCfg("maxn", 2, "onlyn", 4, "maxhashes", 2, "maxflagbytes", 1, "hashbits", 2)},
			{Dir: "merkleblock", Name: "ZZ_C12_extract", Variant: "n=5,<=4 hashes,2 flag bytes", Reach: []string{"extracted"}, Tweak: merkleCfg("maxn", 2, "onlyn", 5, "maxhashes", 4, "maxflagbytes", 2, "hashbits", 2)},
			{Dir: "merkleblock", Name: "ZZ_C12_extract", Variant: "n<=4,flags<=1B,full hashes", Tiers: "thorough", Reach: []string{"extracted", "accepted"}, Tweak: merkleCfg("maxn", 4, "maxflagbytes", 1, "bigcounthashes", 2)},
		},
	})
	reg(&PropSpec{
		ID: "C13",
		Harnesses: []HarnessSpec{
			{Dir: "gcs", Name: "ZZ_C13_members", Variant: "n<=2", Reach: []string{"end"}, Tweak: gcsCfg("maxn", 2)},
			{Dir: "gcs", Name: "ZZ_C13_agree", Variant: "n<=1,q<=2", Reach: []string{"end"}, Tweak: gcsCfg("maxn", 1, "maxq_items", 2)},
			{Dir: "gcs", Name: "ZZ_C13_members", Variant: "n<=2,items nil/empty/1 byte,P=19", Reach: []string{"end"}, Tweak: gcsCfg("maxn", 2, "itemlens", 1, "onlyp", 19)},
			{Dir: "gcs", Name: "ZZ_C13_history", Variant: "two filters n=1, one query each", Reach: []string{"end"}, Tweak: gcsCfg()},
			{Dir: "gcs", Name: "ZZ_C13_agree", Variant: "n<=2,q<=2", Tiers: "thorough", Reach: []string{"end"}, Tweak: gcsCfg("maxn", 2, "maxq_items", 2)},
			{Dir: "gcs", Name: "ZZ_C13_members", Variant: "n<=3,allP", Tiers: "thorough", Reach: []string{"end"}, Tweak: gcsCfg("maxn", 3, "allp", 1)},
		},
	})
	builderCfg := func(kv ...interface{}) func(c *sym.HarnessCfg, tier string) {
		return func(c *sym.HarnessCfg, tier string) {
			c.Stubs = map[string]string{
				"github.com/gcash/bchutil/gcs.BuildGCSFilter":      "zzStubBuild",
				"(*github.com/gcash/bchd/wire.MsgBlock).BlockHash": "zzStubBlockHash",
			}
			for i := 0; i+1 < len(kv); i += 2 {
				c.Params[kv[i].(string)] = kv[i+1].(int)
			}
		}
	}
	reg(&PropSpec{
		ID: "C14",
		Harnesses: []HarnessSpec{
			{Dir: "gcs", Name: "ZZ_C14_fastreduction", Reach: []string{"end"}, Tweak: func(c *sym.HarnessCfg, tier string) { c.UFMul = true }},
			// only when the abstracted query has a model: the same query with exact 64-bit multiplication
			// (cannot be proved unsat in reasonable time, but a wrong routine has abundant witnesses)
			{Dir: "gcs", Name: "ZZ_C14_fastreduction", Variant: "exact-witness", AfterSat: "ZZ_C14_fastreduction", Tweak: func(c *sym.HarnessCfg, tier string) { c.TimeoutMs = 120000 }},
			{Dir: "gcs", Name: "ZZ_C14_encoding", Variant: "n<=2", Reach: []string{"end"}, Tweak: gcsCfg("maxn", 2)},
			{Dir: "gcs", Name: "ZZ_C14_encoding", Variant: "n=1,P=0,unary runs<=70", Reach: []string{"end"}, Tweak: gcsCfg("maxn", 1, "onlyp", 0, "maxq", 70)},
			{Dir: "gcs", Name: "ZZ_C14_serialise", Variant: "bytes<=3", Reach: []string{"end", "rejected"}, Tweak: params(false, "maxbytes", 3)},
			{Dir: "builder", Name: "ZZ_C14_builder", Variant: "tx<=2,in<=2,out<=2,script<=1", Reach: []string{"end"}, Tweak: builderCfg("maxtx", 2, "maxin", 2, "maxout", 2, "maxscript", 1)},
			{Dir: "builder", Name: "ZZ_C14_filterhash", Reach: []string{"end"}, Tweak: params(false, "maxbytes", 2)},
			{Dir: "gcs", Name: "ZZ_C14_encoding", Variant: "n<=3,allP", Tiers: "thorough", Reach: []string{"end"}, Tweak: gcsCfg("maxn", 3, "allp", 1)},
			{Dir: "gcs", Name: "ZZ_C14_serialise", Variant: "bytes<=8", Tiers: "thorough", Reach: []string{"end"}, Tweak: params(false, "maxbytes", 8)},
		},
	})
	wireStubs := func(kv ...interface{}) func(c *sym.HarnessCfg, tier string) {
		return func(c *sym.HarnessCfg, tier string) {
			c.Stubs = map[string]string{
				"(*github.com/gcash/bchd/wire.MsgTx).TxHash":              "zzStubTxHash",
				"(*github.com/gcash/bchd/wire.MsgBlock).BlockHash":        "zzStubBlockHash",
				"(*github.com/gcash/bchd/wire.MsgBlock).SerializeSize":    "zzStubSerializeSize",
				"(*github.com/gcash/bchd/wire.MsgBlock).Serialize":        "zzStubSerialize",
				"(*github.com/gcash/bchd/wire.MsgBlock).Deserialize":      "zzStubDeserialize",
				"(*github.com/gcash/bchd/wire.MsgBlock).DeserializeTxLoc": "zzStubDeserializeTxLoc",
			}
			for i := 0; i+1 < len(kv); i += 2 {
				c.Params[kv[i].(string)] = kv[i+1].(int)
			}
		}
	}
	reg(&PropSpec{
		ID: "C16",
		Harnesses: []HarnessSpec{
			{Dir: "root", Name: "ZZ_C16_block", Variant: "tx<=2,steps=2", Reach: []string{"end"}, Tweak: wireStubs("maxtx", 2, "steps", 2)},
			{Dir: "root", Name: "ZZ_C16_tx", Reach: []string{"end"}, Tweak: wireStubs()},
			{Dir: "root", Name: "ZZ_C16_block", Variant: "tx<=2,steps=3", Tiers: "thorough", Reach: []string{"end"}, Tweak: wireStubs("maxtx", 2, "steps", 3)},
		},
	})
	hdStubs := func(kv ...interface{}) func(c *sym.HarnessCfg, tier string) {
		return func(c *sym.HarnessCfg, tier string) {
			c.ModAsCondSub = true
			c.Stubs = map[string]string{
				"github.com/gcash/bchd/bchec.S256":                               "zzStubS256",
				"(*github.com/gcash/bchd/bchec.KoblitzCurve).ScalarBaseMult":     "zzStubSBM",
				"(*github.com/gcash/bchd/bchec.KoblitzCurve).Add":                "zzStubAdd",
				"github.com/gcash/bchd/bchec.ParsePubKey":                        "zzStubParsePubKey",
				"(*github.com/gcash/bchd/bchec.PublicKey).SerializeCompressed":   "zzStubSerCompressed",
				"(*github.com/gcash/bchd/bchec.PublicKey).SerializeUncompressed": "zzStubSerUncompressed",
				"(*github.com/gcash/bchd/bchec.PublicKey).SerializeHybrid":       "zzStubSerHybrid",
				"github.com/gcash/bchutil/base58.Encode":                         "zzStubB58Encode",
				"github.com/gcash/bchutil/base58.Decode":                         "zzStubB58Decode",
			}
			for i := 0; i+1 < len(kv); i += 2 {
				c.Params[kv[i].(string)] = kv[i+1].(int)
			}
		}
	}
	reg(&PropSpec{
		ID: "C04",
		Harnesses: []HarnessSpec{
			{Dir: "hdkeychain", Name: "ZZ_C04_child", Reach: []string{"derived", "private-child", "refused-depth", "refused-hardened", "refused-il"}, Tweak: hdStubs()},
			{Dir: "hdkeychain", Name: "ZZ_C04_master", Reach: []string{"master", "refused"}, Tweak: hdStubs("maxseed", 66)},
			{Dir: "hdkeychain", Name: "ZZ_C04_serial", Reach: []string{"end"}, Tweak: hdStubs()},
		},
	})
	reg(&PropSpec{
		ID: "C05",
		Harnesses: []HarnessSpec{
			{Dir: "hdkeychain", Name: "ZZ_C05_roundtrip", Reach: []string{"end"}, Tweak: hdStubs()},
			{Dir: "hdkeychain", Name: "ZZ_C05_strict", Reach: []string{"parsed", "accepted", "rejected"}, Tweak: hdStubs()},
			// discharges the assumption "a string with a foreign character Base58-decodes to nothing" that the
			// abstract Base58 boundary of this property's other harnesses relies on (real Decode/CheckDecode)
			{Dir: "base58", Name: "ZZ_C07_b58_foreign", Variant: "bytes<=3", Reach: []string{"end"}, Tweak: realB58("maxchars", 3)},
		},
	})
	reg(&PropSpec{
		ID: "C15",
		Harnesses: []HarnessSpec{
			{Dir: "hdkeychain", Name: "ZZ_C15_independent", Reach: []string{"end", "same-key"}, Tweak: hdStubs()},
		},
	})
	reg(&PropSpec{
		ID: "C06",
		Harnesses: []HarnessSpec{
			{Dir: "root", Name: "ZZ_C06_roundtrip", Reach: []string{"end"}, Tweak: hdStubs()},
			{Dir: "root", Name: "ZZ_C06_strict", Reach: []string{"parsed", "accepted", "rejected"}, Tweak: hdStubs()},
			// discharges the assumption "a string with a foreign character Base58-decodes to nothing" that the
			// abstract Base58 boundary of this property's other harnesses relies on (real Decode/CheckDecode)
			{Dir: "base58", Name: "ZZ_C07_b58_foreign", Variant: "bytes<=3", Reach: []string{"end"}, Tweak: realB58("maxchars", 3)},
		},
	})
	b58Stubs := func(kv ...interface{}) func(c *sym.HarnessCfg, tier string) {
		return func(c *sym.HarnessCfg, tier string) {
			c.Stubs = map[string]string{
				"github.com/gcash/bchutil/base58.Encode": "zzStubEncode",
				"github.com/gcash/bchutil/base58.Decode": "zzStubDecode",
			}
			for i := 0; i+1 < len(kv); i += 2 {
				c.Params[kv[i].(string)] = kv[i+1].(int)
			}
		}
	}
	c08 := func(alloc int, kv ...interface{}) func(c *sym.HarnessCfg, tier string) {
		return func(c *sym.HarnessCfg, tier string) {
			c.AllocLimit = alloc
			for i := 0; i+1 < len(kv); i += 2 {
				c.Params[kv[i].(string)] = kv[i+1].(int)
			}
		}
	}
	jsonStubs := func(c *sym.HarnessCfg, tier string) {
		c.Stubs = map[string]string{
			"(*encoding/base64.Encoding).DecodeString":                "zzStubB64Decode",
			"encoding/hex.DecodeString":                               "zzStubHexDecode",
			"(*encoding/base64.Encoding).EncodeToString":              "zzStubB64Encode",
			"encoding/hex.EncodeToString":                             "zzStubHexEncode",
			"github.com/gcash/bchd/chaincfg/chainhash.NewHashFromStr": "zzStubNewHashFromStr",
		}
	}
	reg(&PropSpec{
		ID: "C08",
		Harnesses: []HarnessSpec{
			{Dir: "root", Name: "ZZ_C08_cashaddr_short", Reach: []string{"in", "accepted"}, Tweak: c08(0)},
			{Dir: "root", Name: "ZZ_C08_address_raw", Variant: "len=prefix+2,2 nets", Tiers: "thorough", Reach: []string{"in"}, Tweak: chain(c08(0, "minextra", 2, "maxextra", 2), params(true))},
			{Dir: "root", Name: "ZZ_C08_address_prefixed", Variant: "sym<=9", Reach: []string{"in"}, Tweak: chain(c08(0, "maxsym", 9), params(true))},
			{Dir: "bloom", Name: "ZZ_C08_filterload", Reach: []string{"in", "end"}, Tweak: chain(bloomStubs("maxk", 2, "maxop", 4, "maxpushes", 1, "maxpushlen", 1), c08(0))},
			{Dir: "gcs", Name: "ZZ_C08_frombytes", Variant: "bytes<=1", Reach: []string{"built", "end"}, Tweak: chain(gcsCfg("maxbytes", 1), c08(4096))},
			{Dir: "gcs", Name: "ZZ_C08_fromnbytes", Variant: "bytes<=2", Tiers: "thorough", Reach: []string{"built", "rejected"}, Tweak: chain(gcsCfg("maxbytes", 2), c08(4096))},
			{Dir: "base58", Name: "ZZ_C08_checkdecode", Reach: []string{"end"}, Tweak: chain(b58Stubs("maxdecoded", 8), c08(0))},
			{Dir: "merkleblock", Name: "ZZ_C12_extract", Variant: "alloc,n<=1", PanicsOnly: true, Reach: []string{"extracted"}, Tweak: chain(merkleCfg("maxn", 1, "maxflagbytes", 1, "hashbits", 2, "bigcounthashes", 1), c08(65536))},
			{Dir: "jsonpb", Name: "ZZ_C08_convert", Variant: "depth1,width2", Reach: []string{"in", "end"}, Tweak: chain(jsonStubs, c08(0, "depth", 1, "width", 2))},
			{Dir: "jsonpb", Name: "ZZ_C08_convert", Variant: "depth2,width2", Tiers: "thorough", Reach: []string{"in", "end"}, Tweak: chain(jsonStubs, c08(0, "depth", 2, "width", 2))},
		},
	})
	reg(&PropSpec{
		ID: "C07",
		Harnesses: []HarnessSpec{
			{Dir: "base58", Name: "ZZ_selfcheck_b58", Reach: []string{"end"}, Tweak: realB58()},
			{Dir: "bech32", Name: "ZZ_selfcheck_bech32", Reach: []string{"end"}},
			{Dir: "base58", Name: "ZZ_C07_b58_bytes", Variant: "bytes<=5", Reach: []string{"end"}, Tweak: realB58("maxbytes", 5)},
			{Dir: "base58", Name: "ZZ_C07_b58_chars", Variant: "chars<=4", Reach: []string{"end", "foreign"}, Tweak: realB58("maxchars", 4)},
			{Dir: "base58", Name: "ZZ_C07_b58_foreign", Variant: "bytes<=3", Tiers: "quick", Reach: []string{"end"}, Tweak: realB58("maxchars", 3)},
			{Dir: "base58", Name: "ZZ_C07_b58_foreign", Variant: "bytes<=5", Tiers: "thorough", Reach: []string{"end"}, Tweak: realB58("maxchars", 5)},
			{Dir: "base58", Name: "ZZ_C07_check", Reach: []string{"roundtrip", "accepted", "rejected"}, Tweak: b58Stubs("maxpayload", 6, "maxdecoded", 8)},
			{Dir: "bech32", Name: "ZZ_C07_bech32_roundtrip", Variant: "hrp<=2,data<=3", Reach: []string{"end"}, Tweak: params(false, "maxhrp", 2, "maxdata", 3)},
			{Dir: "bech32", Name: "ZZ_C07_bech32_strict", Variant: "hrp<=2,data<=2", Reach: []string{"accepted", "rejected"}, Tweak: params(false, "maxhrp", 2, "maxdata", 2)},
			{Dir: "bech32", Name: "ZZ_C07_bech32_strict", Variant: "hrp<=3,data<=3", Tiers: "thorough", Reach: []string{"accepted", "rejected"}, Tweak: params(false, "maxhrp", 3, "maxdata", 3)},
			{Dir: "bech32", Name: "ZZ_C07_bech32_length", Reach: []string{"accepted", "rejected"}, Tweak: params(false)},
			{Dir: "bech32", Name: "ZZ_C07_convertbits", Reach: []string{"end"}, Tweak: params(false, "maxbytes", 4)},
			{Dir: "bech32", Name: "ZZ_C07_convertbits_strict", Reach: []string{"converted", "accepted"}, Tweak: params(false, "maxgroups", 5)},
			{Dir: "base58", Name: "ZZ_C07_b58_bytes", Variant: "bytes<=10", Tiers: "thorough", Reach: []string{"end"}, Tweak: realB58("maxbytes", 10)},
			{Dir: "base58", Name: "ZZ_C07_b58_chars", Variant: "chars<=8", Tiers: "thorough", Reach: []string{"end"}, Tweak: realB58("maxchars", 8)},
			{Dir: "bech32", Name: "ZZ_C07_bech32_roundtrip", Variant: "hrp<=4,data<=10", Tiers: "thorough", Reach: []string{"end"}, Tweak: params(false, "maxhrp", 4, "maxdata", 10)},
		},
	})
	meta("C01", []string{
		"SHA-256 and RIPEMD-160 are uninterpreted functions (same symbol inside the code under test and in the harness reference)",
		"the CashAddr reference encoder in harness/root/common.go is a correct transcription of the specification",
		"legacy and public-key harnesses (thorough tier): Base58 is the engine's abstract bijection, secp256k1 is idealised (bchec contract), public-key coordinates are symbolic in their last 2 bytes only",
	}, []string{"DecodeAddress on legacy Base58Check strings is NOT decided (only the encode side: bytes handed to Base58 = version||hash||checksum, payload, network membership): a string of ~34 symbolic Base58 characters costs the decoder's two CashAddr attempts an error exit per character and did not finish in 50 minutes", "raw public keys in the quick tier; public keys with more than 16 symbolic coordinate bits or on nets other than mainnet", "correctness of the hash primitives"},
		"quick: all 2^160 / 2^256 hashes (fully symbolic) x 6 nets x {P2PKH,P2SH,SLP forms,P2SH32} x 4 renderings; scripts of 0..3 bytes; concrete spec vectors (selfcheck)", "thorough: + scripts of 0..8 bytes, public keys in 3 formats on mainnet")
	meta("C02", []string{
		"base58.Decode of a string that is not the output of base58.Encode on this path is abstracted: empty if a character is outside the alphabet, otherwise an arbitrary byte string of any length such a string can decode to (over-approximation; the exact behaviour is established by C07)",
		"branch feasibility is not queried (lazy mode): infeasible paths only add vacuous obligations",
	}, []string{"strings whose checksum is NOT valid (covered by C03)", "payload lengths outside the tier's list"},
		"quick: payload symbol counts {0,1,2,8,33,34,35,40,53,54}, all symbols symbolic, 6 nets x {cash,slp,foreign,unknown prefix} x {with,without prefix} x {lower,upper}", "thorough: every payload length 0..104")
	meta("C03", []string{
		"reduction used for weights 3..w: an error pattern may be shifted so that its last non-zero symbol is the last symbol of the string (x is invertible modulo the generator; the remainder is GF(2)-affine in the symbols) - so supports containing the last position at the maximal length cover all shorter windows; for weights 1 and 2 the reduction is NOT relied upon: every support anywhere in the string is swept (a decoder with a position-dependent weakness does not respect the shift argument)",
		"the payload and the prefix cancel out of the acceptance condition; this cancellation is performed by the engine's affine normaliser on the real polyMod/bech32Polymod code for the executed prefix",
	}, []string{"CashAddr weight-5 patterns on strings longer than 61 symbols (thorough covers weight 5 up to 61 symbols, weight 4 up to 112)", "bech32 human-readable parts other than the executed one (enter only through the affine constant)"},
		"quick: cashaddr w<=3 at 112 symbols (6105 supports), w<=4 at 42 symbols (10660); bech32 w<=3 at 88 symbols (3741)", "thorough: + cashaddr w<=5 at 42 and 61 symbols, w<=4 at 112; bech32 w<=4 at 88 symbols")
	meta("C09", []string{
		"MurmurHash3 is an uninterpreted function inside the filter harnesses; ZZ_C09_murmur proves it equal to an independent transcription of the specification for each data length in the bound",
		"unsigned x % m with symbolic m is an uninterpreted function constrained by r < m (sound over-approximation)",
		"math.Log returns an arbitrary float64 (including NaN/Inf); out-of-range float->uint32 conversions yield an arbitrary value",
	}, []string{"more than one insertion per harness run is covered by induction on 'bits only grow' + 'exact new bit array' from an arbitrary prior state (glue not solver-checked)", "hash-function counts above the tier bound in the insertion harness"},
		"quick: filter length 1..36000 (symbolic), HashFuncs 0..4 (case split), item lengths {0,1,2,3,4,32,36}; Murmur equivalence for lengths 0..12", "thorough: HashFuncs up to 8 (insert) / 50 (query), Murmur lengths 0..36")
	meta("C10", []string{
		"txscript.PushedData / GetScriptClass / MsgTx.TxHash are nondeterministic stubs (arbitrary parse result per script, arbitrary class, arbitrary txid)",
		"MurmurHash3 uninterpreted, x % m abstracted as in C09",
	}, []string{"false-positive interactions in block scans (the block harness uses an ideal-set filter: it contains exactly the outpoints added so far)", "real script parsing", "transactions / blocks larger than the tier bound"},
		"quick: HashFuncs<=1, <=1 output, <=1 input, <=1 push of <=1 byte per script, all three update flags (symbolic); block scans: <=3 transactions with 2 outputs and <=1 input each, every spend graph and order, ideal-set filter", "thorough: HashFuncs<=2, <=2 outputs, <=2 pushes")
	meta("C04", []string{
		"HMAC-SHA512, SHA-256, RIPEMD-160 are uninterpreted functions; secp256k1 is idealised: k*G and point addition are uninterpreted functions of their byte arguments, ParsePubKey applies bchec's format-byte rules with curve membership/decompression uninterpreted, serialisers are format||X||Y (harness/hdkeychain/stubs.go)",
		"the parent key satisfies the package's representation invariant: private key = 32 bytes with value in [1,n-1], public key = 33 bytes accepted by ParsePubKey, chain code 32 bytes, fingerprint 4 bytes (established by NewMaster, Child and NewKeyFromString; one Child step from such a key is the inductive step for paths of any length)",
		"(a+b) mod n is computed as a conditional subtraction; its side condition a+b < 2n is itself an obligation",
		"Base58 is a recording stub (the bytes handed to base58.Encode are compared)",
		"counterexamples behind the idealised HMAC are confirmed natively by walking the child index from the model's value (up to 8192 derivations)",
	}, []string{"a child private scalar equal to 0 ((IL+k) mod n = 0) is not refused by Child although BIP32 declares it invalid: one HMAC value in 2^256, cannot be exhibited", "neuter/derive commutation (needs the group-homomorphism axiom; not encoded)", "the hash and curve primitives themselves"},
		"all parent keys, all 2^32 indices (symbolic), private and public; seed lengths 0..66 and {127..129, 255..257, 272, 288, 320, 511, 512, 528, 576}", "same")
	meta("C05", []string{
		"crypto idealised and Base58 stubbed as in C04; natively the checksum bytes of a model are recomputed with the real double-SHA256 before parsing",
		"derived private keys are assumed non-zero and derived public keys on the curve (contract of the idealised curve)",
	}, []string{"payload lengths outside the tier list", "Base58 itself (C07)"},
		"keys built field by field and keys produced by one Child step; decoded payload lengths {0,4,78,81,82,83}", "decoded payload lengths 0..90")
	meta("C06", []string{"crypto idealised and Base58 stubbed as in C04", "scalars are 32 symbolic bytes with value in [1,n-1] (all leading-zero counts)"},
		[]string{"payload lengths outside the tier list"},
		"all scalars x {compressed,uncompressed} x {6 nets, arbitrary net byte}; decoded payload lengths {0,4,36,37,38,39}", "decoded payload lengths 0..45")
	meta("C07", []string{
		"base58: bytes and characters are Int-mode values (mathematical integers in [0,255]); big.Int is an SMT Int; the tables alphabet/b58 are uninterpreted functions with range and inverse lemmas that the engine verifies on the real table contents on every run (if they do not hold, exact 256-way definitions are used instead)",
		"Base58Check is checked on an abstract Base58 boundary (recording stub), double-SHA256 uninterpreted",
		"bech32 reference: transcription of the BIP173 reference code in harness/bech32/c07.go",
	}, []string{"byte strings / character strings longer than the tier bound", "ConvertBits inverse for pairs other than 8<->5"},
		"base58: <=5 bytes / <=4 characters (Int mode, ASCII), every string of <=3 arbitrary bytes containing a foreign byte (bit-vector mode, UTF-8 sequences included); Base58Check payload <=6; bech32 hrp <=2 chars, data <=3 symbols, every rejection rule behind the checksum wall (case, unprintable, empty hrp, short data, foreign data char), lengths 89..92; ConvertBits <=4 bytes / <=5 groups, all (from,to) in 0..9", "base58 <=10 bytes / <=8 characters; bech32 hrp<=4, data <=10")
	meta("C08", []string{
		"dependency code (encoding/json, OpenBazaar jsonpb, wire decoders, txscript, base64/hex decoders) is outside; where a harness needs its result it is a stub returning an arbitrary value",
		"an allocation sized by a symbolic count must not exceed 4096 elements for inputs of <= 6 bytes (gcs harnesses); other allocations have concrete sizes per path",
		"termination: every loop carries an unwinding bound (4096); exceeding it on a feasible path is reported",
	}, []string{"inputs longer than the tier bounds", "time complexity beyond 'no path exceeds the unwinding bound'"},
		"Base58Check on every decoded byte string of 0..8 bytes (valid and invalid checksums); cashaddr: 1..3 letter prefixes x 0..9 symbols; DecodeAddress on arbitrary ASCII strings <=4 bytes and prefix+<=9 symbols x 6 nets; filter-load 0..36000 bytes x HashFuncs {0,1,2,50}; gcs <=3 / <=6 bytes, arbitrary N,P,M; JSON trees depth 1 width 2 (thorough: depth 2)", "larger strings; raw address strings just above the length pre-check; N-prefixed gcs filters")
	meta("C15", []string{"crypto idealised and Base58 stubbed as in C04", "histories: one derivation (Child / Neuter / String+parse) followed by one of Zero(derived), Zero(original), SetNet, Child"},
		[]string{"longer histories; NewExtendedKey with caller-owned buffers (documented custom API)"},
		"two-step histories over {Child,Neuter,parse} x {Zero(derived) then SetNet,Zero(original),SetNet,Child}, private and public, cached and uncached public key", "same plus a second derivation after Child")
	meta("C16", []string{
		"wire.MsgTx.TxHash, MsgBlock.BlockHash/Serialize/SerializeSize/Deserialize/DeserializeTxLoc are stubs: arbitrary hashes, an arbitrary 3-byte serialisation, Deserialize consumes exactly the serialisation and yields the message (natively the harness uses a real block and the real functions)",
	}, []string{"TxLoc contents (stubbed)", "blocks with more than 2 transactions / histories longer than the tier bound"},
		"0..2 transactions, 4 constructors (incl. trailing byte), 2 accessor calls with symbolic index", "3 accessor calls")
	meta("C11", []string{
		"double-SHA256 is an uninterpreted, collision-free function (pairwise injectivity lemmas on each path)",
		"transaction ids are symbolic except for a distinct concrete first byte (no two transactions of a block share an id)",
		"bloom matching is replaced by the chosen subset (stub of Filter.MatchTxAndUpdate)",
	}, []string{"transaction counts above the tier bound", "blocks containing duplicate transaction ids"},
		"quick: n = 1..5 transactions, all 2^n subsets, three builders", "thorough: n up to 9")
	meta("C12", []string{
		"double-SHA256 is an uninterpreted, collision-free function",
		"hash pointers in the message are non-nil (guaranteed by wire decoding)",
	}, []string{"counts/hash lists/flag strings above the tier bound", "a second ExtractMatches call on the same object"},
		"quick: declared count in {0,1,2,MaxTxnCount,MaxTxnCount+1,2^32-1} and every count above MaxTxnCount (symbolic), 0..3 hashes over a 4-element symbolic alphabet, all flag strings of 0..1 bytes; declared count 5 with <=4 hashes and all flag strings of 0..2 bytes", "thorough: count<=4, full 256-bit symbolic hashes")
	meta("C13", []string{
		"SipHash-2-4 is an uninterpreted function of (item, key): item hashes are arbitrary 64-bit values",
		"fastReduction is replaced by its contract floor(v*NM/2^64) < NM (uninterpreted below that bound); the contract is proved in C14 (ZZ_C14_fastreduction)",
		"M < 2^40 and (N*M) >> P <= 2 (unary runs of at most 2 ones)",
		"counterexamples are replayed against the real gcs code with SipHash pinned (build overlay) to the values the solver chose",
	}, []string{"data sets larger than the tier bound; P values outside {0,1,7,8,9,19,31,32} in quick", "SipHash itself"},
		"quick: N<=2 items of 2 bytes (members; also nil / empty / 1-byte items at P=19), N<=1 with <=2 queries (agreement), two-filter history (any query on A, then all strategies on B; sync.Pool modelled as a nondeterministic LIFO), P in {0,1,7,8,9,19,31,32}, M symbolic", "thorough: N<=3 with all P in 0..32; agreement with N<=2")
	meta("C14", []string{
		"64x64-bit products of two symbolic operands are a commutative uninterpreted function with the range lemma (product of bounded factors is bounded); fastReduction and math/bits.Mul64 are compared over the same four partial products",
		"SipHash uninterpreted; fastReduction contract as in C13 for the encoding harness",
		"CompactSize / bytes.Buffer / wire.ReadVarInt are executed for real (non-blocking select takes its default arm)",
		"builder harness: gcs.BuildGCSFilter is a recording stub (what reaches the encoder is compared with the specified set, key, P, M; the encoder itself is covered by the gcs harnesses), MsgBlock.BlockHash returns an arbitrary hash; natively the real encoder runs and the result is compared with the encoder applied to the specified set",
	}, []string{"blocks with more than 2 transactions / 2 inputs / 2 outputs per transaction or scripts longer than 1 byte in the builder harness; the builder's With*/Set* chain other than what BuildBasicFilter/BuildMempoolFilter use", "N above the bound in the encoding harness"},
		"quick: all (v,NM) for fastReduction; encoding with N<=2, P list, M symbolic; serialisation with <=3 filter bytes, all four CompactSize classes of N, P in 0..33; builder (basic and mempool) on <=2 transactions x <=2 inputs (symbolic outpoints) x <=2 outputs (nil / empty / 1-byte scripts); filter hash and header on filters of <=2 bytes", "thorough: N<=3 all P; <=8 filter bytes")
	meta("C17", []string{
		"float64 division by a constant is relaxed to |fma(q,c,-a)| <= RTP(|q|*c*2^-53) and |q|<=|a| (a sound superset of the correctly rounded quotient)",
		"monotonicity of the IEEE product f*1e8 in f is assumed (only the rounding step is proved monotone)",
	}, []string{"decimal text produced by strconv.FormatFloat", "|f*1e8| >= 2^62"},
		"all float64 with |x| < 2^62; all integers |a| <= 2.1e15; units -8..12", "same as quick")
	meta("C18", nil, []string{"transactions larger than the tier bound"},
		"quick: <=4 inputs whose hashes are symbolic in stored bytes 0,1,30,31 (others equal); <=2 inputs and <=2 outputs (scripts <=1 byte) jointly; 3 inputs; 3 outputs with scripts <=2 bytes; all hashes/indices/amounts symbolic", "thorough: 4 inputs; 4 outputs; 3x3 jointly")
	meta("C19", []string{"coin values in [0,2^50], value-ages in [0,2^56], targets/min-change in [0,2^52] (no int64 overflow)"},
		[]string{"coin lists longer than the tier bound", "SimpleCoin's own value*confirmations product"},
		"quick: 0..2 coins, all parameters symbolic (MaxInputs in -1..6); coin-set histories of 3 operations", "thorough: 0..3 coins; histories of 5 operations")
	meta("C20", []string{
		"the step from 'every access to the shared message happens inside one critical section of the filter's mutex, which is released on return' to data-race freedom and linearizability is the standard mutex argument and is trusted, not derived by the solver",
	}, []string{"bounded interleaving exploration", "escape of the message pointer through MsgFilterLoad()/LoadFilter (documented API behaviour)", "GCS immutability is checked in the gcs harnesses when present"},
		"every exported *Filter method and the package-level GetMatchedIndices(block, filter) from loaded/unloaded states, HashFuncs<=2; natively: one call per update flag x output-script class under a 5 s watchdog (a re-entrant lock never returns), then the 8-goroutine race stress", "same")
	props["C20"].Explanation = "Lock-discipline verification: each exported method of bloom.Filter is executed symbolically from an arbitrary state with sync.Mutex modelled as a ghost flag; every load/store of the shared message (and everything reachable from it) while the flag is down, a double lock, or a return with the flag up is an obligation failure, which is then confirmed natively by an 8-goroutine stress run under the race detector before it is reported."
}

func gcsCfg(kv ...interface{}) func(c *sym.HarnessCfg, tier string) {
	return func(c *sym.HarnessCfg, tier string) {
		c.UFCalls = map[string]bool{"github.com/aead/siphash.Sum64": true}
		c.Stubs = map[string]string{"github.com/gcash/bchutil/gcs.fastReduction": "zzStubFastReduction"}
		for i := 0; i+1 < len(kv); i += 2 {
			c.Params[kv[i].(string)] = kv[i+1].(int)
		}
	}
}

func chain(fs ...func(c *sym.HarnessCfg, tier string)) func(c *sym.HarnessCfg, tier string) {
	return func(c *sym.HarnessCfg, tier string) {
		for _, f := range fs {
			f(c, tier)
		}
	}
}

// ecStubs: idealised secp256k1 for the root package harnesses (Base58 stays the engine's abstract bijection).
func ecStubs(lazy bool) func(c *sym.HarnessCfg, tier string) {
	return func(c *sym.HarnessCfg, tier string) {
		c.Lazy = lazy
		c.Stubs = map[string]string{
			"github.com/gcash/bchd/bchec.S256":                               "zzStubS256",
			"(*github.com/gcash/bchd/bchec.KoblitzCurve).ScalarBaseMult":     "zzStubSBM",
			"github.com/gcash/bchd/bchec.ParsePubKey":                        "zzStubParsePubKey",
			"(*github.com/gcash/bchd/bchec.PublicKey).SerializeCompressed":   "zzStubSerCompressed",
			"(*github.com/gcash/bchd/bchec.PublicKey).SerializeUncompressed": "zzStubSerUncompressed",
			"(*github.com/gcash/bchd/bchec.PublicKey).SerializeHybrid":       "zzStubSerHybrid",
		}
	}
}

func meta(id string, assumptions, outside []string, quick, thorough string) {
	p := props[id]
	if p == nil {
		return
	}
	p.Assumptions = assumptions
	p.Outside = outside
	p.Bounds = map[string]string{"quick": quick, "thorough": thorough}
}
