#!/usr/bin/env python3
import json
T="bounded symbolic execution of the real Go code (go/ssa -> SMT-LIB; z3 / cvc5 decide every obligation), counterexamples replayed natively"
def chk(pid, text, note, technique=T, cat="model_checking"):
    return {"property_id": pid,
      "quick_cmd": f"./bin/gosmt check {pid} --tier quick",
      "thorough_cmd": f"./bin/gosmt check {pid} --tier thorough",
      "evidence_file": f"/verif/evidence/{pid}.json",
      "replay_cmd_template": "./bin/gosmt replay {path}",
      "engine": "gosmt",
      "level_claimed": {"category": cat, "text": text, "design_ref": "DESIGN.md §4 "+pid},
      "level_note": note, "technique": technique}
C=[
 chk("C01","Constructors, encoder and decoder run symbolically for fully symbolic 160/256-bit hashes, scripts and contract-valid public keys on all six nets; each assertion (same kind, same payload, same string, spec string, network membership) is an SMT obligation.","SHA-256/RIPEMD-160 uninterpreted; Base58 abstract bijection (C07); secp256k1 idealised (bchec contract); CashAddr reference transcribed from the spec."),
 chk("C02","Every string with a VALID checksum over an arbitrary 5-bit payload (lengths per tier) and every near-miss prefix is pushed through the real DecodeAddress; acceptance implies canonical re-encoding, known version byte, zero padding, own prefix.","Base58 fallback abstracted (over-approximation); payload lengths per tier; lazy feasibility."),
 chk("C03","The real decoders run on (real codeword XOR symbolic error); the accepting path condition is reduced to GF(2) equations in the error bits and every support of weight<=w containing the last position, and every support of weight<=2 anywhere, is one solver query; non-charset substitutions are a separate harness.","Shift argument (pattern can be moved to end at the last symbol) is glue for weights 3..w only; if the acceptance condition is not affine the sweep falls back to all supports.","symbolic execution of the real decoder + one SMT query per error support over the extracted XOR system"),
 chk("C04","One Child step from an arbitrary valid parent (inductive step for any path), NewMaster for every seed length, serialisation layout and address derivation, all as SMT obligations over 256-bit bit-vectors.","HMAC/SHA/RIPEMD uninterpreted, secp256k1 idealised, Base58 stubbed; child scalar 0 outside."),
 chk("C05","Round trip of built and derived keys and strict acceptance of arbitrary decoded payloads behind the Base58 boundary.","as C04; payload lengths per tier."),
 chk("C06","WIF round trip for every scalar in [1,n-1], both flags, every net byte; strict acceptance of arbitrary decoded payloads.","as C04; payload lengths per tier."),
 chk("C07","Real base58.Encode/Decode executed with Int-mode bytes and big.Int as SMT integers (mutual inverses, leading zeros, foreign characters, purity) and with bit-vector bytes for arbitrary byte strings containing a foreign byte (UTF-8 sequences included); Base58Check on the abstract boundary; bech32 against a BIP173 transcription, arbitrary strings, ConvertBits, spare-capacity purity.","table lookups are uninterpreted with inverse lemmas verified on the real tables each run; sizes per tier."),
 chk("C08","Implicit-panic, unwinding and allocation obligations of dedicated entry-point harnesses with arbitrary inputs (plus the panic obligations of every other property's harnesses); a harness borrowed from another property counts only with its panic/allocation/bound obligations.","dependency decoders are stubs; input sizes per tier; time bound = unwinding bound."),
 chk("C09","Insertion/query/reload on a symbolic-length SMT-array filter (1..36000 bytes) with case-split hash-function count; bit array equals the BIP37 reference; MurmurHash3 proved equal to an independent transcription per data length; sizing formula limits.","MurmurHash3 uninterpreted in the filter harnesses; x % m abstracted by r<m; math.Log arbitrary."),
 chk("C10","MatchTxAndUpdate compared (result and final bit array) with a straight-line BIP37 reference on symbolic transactions, filters and flags.","script parsing/class/txid stubbed; block scans with an ideal-set filter model (ZZ_C10_block); counterexamples of the transaction harness are replayed differentially (single-item real filters, real scripts and hash)."),
 chk("C11","Three builders on every subset of an n-transaction block against an independent canonical BIP37 builder, followed by extraction (root, matches, positions).","double-SHA256 uninterpreted and collision free; n per tier."),
 chk("C12","ExtractMatches on arbitrary (count, hash list, flag bytes) against a value-style reference evaluator: accept iff valid, same root and matches; no panic.","hash alphabet / full hashes per tier; sizes per tier."),
 chk("C13","Members match through all four query paths; MatchAny = Zip = Hash = OR Match, on filters built by the real builder with SipHash uninterpreted; two-filter query histories (no state leaks; sync.Pool modelled).","fastReduction replaced by its contract (proved in C14); unary runs <=2; replay pins SipHash."),
 chk("C14","fastReduction equals the high half of the 128-bit product; filter bytes equal the Golomb-Rice reference; N/P/NP serialisations and deserialisers; the block-filter builder hands the encoder exactly the specified de-duplicated set, key, P and M; filter hash and header.","UF multiplication with range lemma; the encoder is a recording stub inside the builder harness (natively the real encoder)."),
 chk("C15","Two-step histories over Child/Neuter/parse followed by Zero/SetNet/Child: every other key keeps its observation tuple; Zero erases every buffer.","as C04; history length per tier."),
 chk("C16","Block/Tx accessors in any order with symbolic indices from four constructors against fresh values; same objects on repeat; out-of-range errors.","wire functions stubbed (natively a real block)."),
 chk("C17","Float properties decided with the SMT FloatingPoint theory (z3, cvc5) on the real amount.go code.","division relaxed to its FMA characterisation; strconv outside; product monotonicity assumed."),
 chk("C18","Sort/InPlaceSort/IsSorted with the real sort.Sort on symbolic transactions against a BIP69 reference comparator; non-destructive, permutation, idempotent.","sizes per tier."),
 chk("C19","Four selectors and CoinSet histories on symbolic coin lists and parameters.","value ranges exclude int64 overflow; list sizes per tier."),
]
c20=chk("C20","Lock-discipline verification by symbolic execution: every access to the shared message in every exported Filter method and in GetMatchedIndices happens with the mutex held, which is released on return; a failure is confirmed by a native -race stress replay (or, for a re-entrant lock, by a call that does not return under a watchdog).","from 'single critical section of one mutex' to race freedom/linearizability is the standard mutex argument (trusted).","symbolic execution with ghost lock state; native race-detector replay","other")
C.append(c20)
m={"version":1,
 "setup_cmd":"cd /verif/engine && GOFLAGS=-mod=mod GOPROXY=off GOSUMDB=off GOTOOLCHAIN=local go build -o ../bin/gosmt ./cmd/gosmt",
 "hooks":{"guard":"verif","enable":"no hooks: harnesses are injected with go/packages overlays and go test -overlay; /repo is not modified","baseline_off_cmd":"cd /repo && go test -mod=mod -json -vet=off -count=1 -timeout 25m ./...","source_commits":[],"add_only":True},
 "engines":[{"name":"gosmt","path":"/verif/engine","serves_properties":[c["property_id"] for c in C],"kind_free_text":"bounded symbolic executor over go/ssa emitting SMT-LIB2 for z3/cvc5, with native replay"}],
 "checks":C,
 "not_applicable":[],
 "notes":"Genuine defects found and repaired are listed in known_findings.txt (fixed: lines) and DESIGN.md §5; seeded-change results in seeded/RESULTS.md."}
json.dump(m,open("/verif/MANIFEST.json","w"),indent=1)
print("written", len(C))
