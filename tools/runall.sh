#!/bin/bash
# run every quick check, print one line per property
cd /verif
for i in $(seq -w 1 20); do
  s=$(date +%s)
  out=$(timeout 1500 ./bin/gosmt check C$i --tier ${1:-quick} 2>&1); rc=$?
  e=$(( $(date +%s) - s ))
  echo "C$i rc=$rc ${e}s $(echo "$out" | grep -c '^INCONCLUSIVE') inconclusive; $(echo "$out" | grep -E '^VIOLATION|CHECK-BROKEN|load failed' | head -3 | cut -c1-160)"
done
