#!/bin/bash
# usage: seedB.sh <PROP> [tier]  -- import the second-round seeds of a property as k=3,4 and run seedcheck on both
P=$1; TIER=${2:-quick}
for j in 1 2; do
  k=$((j+2))
  [ -f /tmp/seedB_${P}_out/change$j.diff ] || continue
  mkdir -p /tmp/seed_${P}_out
  cp /tmp/seedB_${P}_out/change$j.diff /tmp/seed_${P}_out/change$k.diff
  cp /tmp/seedB_${P}_out/demo${j}_test.go /tmp/seed_${P}_out/demo${k}_test.go
  cp /tmp/seedB_${P}_out/meta$j.json /tmp/seed_${P}_out/meta$k.json
  echo "== $P $k"
  SEED_TIMEOUT=${SEED_TIMEOUT:-2400} /verif/tools/seedcheck.sh $P $k $TIER 2>&1 | tail -6
done
git -C /repo worktree remove --force /tmp/seedB_$P >/dev/null 2>&1
