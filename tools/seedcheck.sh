#!/bin/bash
# usage: seedcheck.sh <PROP> <k> [tier]   -- confirm a seeded change and run our check against it
set -u
P=$1; K=$2; TIER=${3:-quick}
export GOFLAGS=-mod=mod GOPROXY=off GOSUMDB=off GOTOOLCHAIN=local
SRC=/tmp/seed_${P}_out
DIFF=$SRC/change$K.diff; DEMO=$SRC/demo${K}_test.go; META=$SRC/meta$K.json
if [ ! -f "$DIFF" ] && [ -f /verif/seeded/${P}_$K/patch.diff ]; then
  # fall back to the kept copy (scratch copies are written under /tmp and removed after use)
  mkdir -p $SRC; cp /verif/seeded/${P}_$K/patch.diff $DIFF; cp /verif/seeded/${P}_$K/demo_test.go $DEMO; cp /verif/seeded/${P}_$K/meta.json $META
fi
[ -f "$DIFF" ] || { echo "no diff"; exit 2; }
DIR=$(python3 -c "import json;print(json.load(open('$META'))['dir'])")
WT=/tmp/sv_${P}_$K
git -C /repo worktree remove --force $WT >/dev/null 2>&1
git -C /repo worktree add --detach $WT HEAD >/dev/null 2>&1 || { echo "worktree failed"; exit 2; }
R="{}"
cd $WT
confirm() {
  git apply $DIFF || { echo "CONFIRM: diff does not apply"; return 1; }
  go build ./... || { echo "CONFIRM: build fails"; return 1; }
  if ! go test -count=1 -vet=off ./... >/tmp/sv_suite_$P$K.log 2>&1; then echo "CONFIRM: existing suite FAILS with change"; tail -5 /tmp/sv_suite_$P$K.log; return 1; fi
  cp $DEMO $DIR/zz_demo_test.go
  if go test -count=1 -vet=off ./$DIR >/tmp/sv_demo_$P$K.log 2>&1; then echo "CONFIRM: demo PASSES with change (should fail)"; return 1; fi
  git checkout -- . ; 
  if ! go test -count=1 -vet=off ./$DIR >/tmp/sv_demo2_$P$K.log 2>&1; then echo "CONFIRM: demo FAILS on clean HEAD"; tail -5 /tmp/sv_demo2_$P$K.log; return 1; fi
  rm -f $DIR/zz_demo_test.go
  echo "CONFIRM: ok (suite passes with change, demo fails with change, demo passes without)"
  return 0
}
confirm; CONF=$?
cd /verif
git -C /repo worktree remove --force $WT >/dev/null 2>&1
rm -f /tmp/sv_suite_$P$K.log /tmp/sv_demo_$P$K.log /tmp/sv_demo2_$P$K.log
[ $CONF -eq 0 ] || exit 3
# run our check against the change applied to a scratch worktree (GOSMT_REPO), /repo stays untouched
RW=/tmp/sv_run_${P}_$K
git -C /repo worktree remove --force $RW >/dev/null 2>&1
git -C /repo worktree add --detach $RW HEAD >/dev/null 2>&1 || { echo "worktree failed"; exit 2; }
git -C $RW apply $DIFF
OUT=$(GOSMT_REPO=$RW GOSMT_EVIDENCE=/tmp/sv_evidence GOSMT_REPLAYS=/tmp/sv_replays timeout ${SEED_TIMEOUT:-3000} ./bin/gosmt check $P --tier $TIER 2>&1); RC=$?
git -C /repo worktree remove --force $RW >/dev/null 2>&1
echo "$OUT" | grep -E "^VIOLATION|^check |CHECK-BROKEN|^KNOWN" | cut -c1-300
echo "CHECK-EXIT=$RC"
D=/verif/seeded/${P}_$K; mkdir -p $D
cp $DIFF $D/patch.diff; cp $DEMO $D/demo_test.go
python3 - "$META" "$D/meta.json" "$RC" "$TIER" <<PY
import json,sys
m=json.load(open(sys.argv[1]))
try:
    old=json.load(open(sys.argv[2]))
    if "note" in old: m["note"]=old["note"]
except Exception:
    pass
m["confirmed_by_us"]="applied in a scratch worktree: existing suite passes with the change, demo fails with it and passes without"
m["our_check"]={"tier":sys.argv[4],"exit":int(sys.argv[3]),"detected":int(sys.argv[3])==1}
json.dump(m,open(sys.argv[2],"w"),indent=1)
PY
